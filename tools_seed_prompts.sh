#!/bin/bash
# usage: tools_seed_prompts.sh <suffix>   e.g. "e" -> worktrees /tmp/wt/C01e ... and prompts /tmp/wt/prompt_C01e.txt
# Makes one scratch worktree of /repo per claimed property (contract files hidden) and the self-contained prompt a
# fresh sub-agent gets: the property text, the anchored file names and the places earlier seeds already changed.
# Development tool: not a registered command.
suf=$1
mkdir -p /tmp/wt
cd /repo || exit 2
for id in C01 C02 C03 C04 C05 C06 C07 C08 C09 C10 C11 C12 C13 C15 C16 C17 C18 C19; do
  wt=${id}${suf}
  git worktree add -q --detach /tmp/wt/$wt HEAD
  (cd /tmp/wt/$wt && rm -f pkg/yqlib/zz_verif_contracts.go cmd/zz_verif_contracts.go && git add -A && git -c user.name=scratch -c user.email=s@x commit -qm "scratch: hide contract files")
done
SUF=$suf python3 - <<'EOF'
import json,glob,re,os
suf=os.environ['SUF']
props={json.loads(l)['id']:json.loads(l) for l in open('/verif/properties.jsonl')}
tmpl='''You are helping test a verification tool by writing a realistic BUG INJECTION (a "seeded change") for the open-source Go project mikefarah/yq (a jq-like processor for YAML/JSON/XML/...). 

Work ONLY inside the scratch git worktree at WT (a checkout of the repository). Do not read or write anything under /verif or /repo. Do not commit anything; leave your change as an uncommitted working-tree modification, and put your deliverables in WT/_seed/.

The sandbox has no network. For every go command use:  export GOFLAGS=-mod=mod GOPROXY=off GOSUMDB=off GOTOOLCHAIN=local

Here is a semantic property that yq is supposed to satisfy:

PROPBLOCK
YOUR TASK: make a small change to yq's Go source (NOT to tests, NOT to any *_test.go file) that BREAKS this property, while
  (1) the code still compiles (`go build ./...`),
  (2) the entire existing test suite still passes unchanged (`go test -vet=off -count=1 ./...` from WT — run it and confirm), and
  (3) the breakage is SUBTLE: it must need something specific to manifest — an unusual input, a boundary value, a multi-step sequence of operations, or two cooperating code sites that each look fine alone — NOT something ordinary use would expose at once. Think like a plausible regression a maintainer could introduce by accident (an off-by-one, a dropped clone/copy, a wrong comparison operator on a rare branch, a swapped argument, an early return, a missing error check), in the functions that implement the property.

Deliverables in WT/_seed/ :
  - patch.diff : output of `git diff` for your source change only (no files under _seed, no test files).
  - demo_test.go : a Go test (package yqlib, or package cmd if your change is under cmd/) with ONE test function named TESTNAME that FAILS with your change applied and PASSES on the original code. It must be self-contained (use the package's internal API or the public evaluator API as the existing tests do). State in a comment at the top which directory it has to be copied into to run (e.g. pkg/yqlib/).
  - notes.md : 5-10 lines: what you changed, which clause of the property it breaks, what is needed for it to manifest, and the exact commands you ran with their results (build, full test suite with the change, demo test with and without the change).

Verify everything yourself before finishing: copy demo_test.go into place, run it with the change (must FAIL), then save your change with `git diff > WT/_seed/patch.diff`, undo it with `git apply -R WT/_seed/patch.diff` (do NOT use `git stash`: the stash is shared between worktrees and other people are working in sibling worktrees), run it again (must PASS), then re-apply it with `git apply WT/_seed/patch.diff`, remove the copied demo test from the source tree, and re-run the full suite with the change (must PASS). Leave the worktree with ONLY your source change applied plus the _seed directory.

Prefer a change in the core mechanism files listed above. Keep it to a few lines. Report back a short summary (what you changed and the verification results).
'''
def locs(pid):
    out=[]
    for d in sorted(glob.glob(f'/verif/seeded/{pid}-*')):
        patch=open(d+'/patch.diff').read()
        files=re.findall(r'^\+\+\+ b/(.*)$',patch,re.M)
        funcs=re.findall(r'^@@.*@@ (.*)$',patch,re.M)
        out.append(f"{', '.join(files)} ({'; '.join(f.strip()[:70] for f in funcs[:2])})")
    return out
for pid in "C01 C02 C03 C04 C05 C06 C07 C08 C09 C10 C11 C12 C13 C15 C16 C17 C18 C19".split():
    p=props[pid]; wt=pid+suf
    blk=f"  Title: {p['title']}\n  Statement: {p['statement']}\n  Files where the mechanisms live: {', '.join(p['anchors']['files'])}\n\n"
    t=tmpl.replace('WT','/tmp/wt/'+wt).replace('TESTNAME','TestSeeded'+wt).replace('PROPBLOCK',blk)
    t+="\nOther people have already seeded changes at these places; choose a DIFFERENT function and, if you can, a different clause of the property:\n"+"\n".join("  - "+l for l in locs(pid))+"\n"
    open(f'/tmp/wt/prompt_{wt}.txt','w').write(t)
print(len(glob.glob(f'/tmp/wt/prompt_*{suf}.txt')))
EOF
