#!/bin/bash
# Must-fail corpus: every seeded change under seeded/<name>/ that a check caught when it was recorded must
# still be caught. Works on scratch copies only: a detached worktree of /repo's HEAD plus /repo's uncommitted
# changes, and a copy of /verif (so neither /repo's working tree nor /verif/evidence is touched). Applies each
# patch, runs the checks named in meta.json, expects a VIOLATION line, and restores the scratch tree.
# Development tool (uses /tmp): not a registered command.
# usage: tools_selftest.sh [seed-name ...]
set -u
export GOFLAGS=-mod=mod GOPROXY=off GOSUMDB=off GOTOOLCHAIN=local
R=/tmp/yqv_selftest_repo
V=/tmp/yqv_selftest_verif
git -C /repo worktree remove --force $R 2>/dev/null
rm -rf $R $V
git -C /repo worktree add -q --detach $R HEAD || exit 2
git -C /repo diff HEAD | git -C $R apply --allow-empty 2>/dev/null
git -C $R add -A >/dev/null; git -C $R -c user.name=selftest -c user.email=s@t commit -qm "selftest base" --allow-empty
mkdir -p $V
rsync -a --exclude .git --exclude replay --exclude evidence /verif/ $V/
mkdir -p $V/evidence $V/replay
export YQ_REPO=$R VERIF_DIR=$V
cd $V
fail=0
for d in /verif/seeded/*/; do
  name=$(basename $d)
  if [ $# -gt 0 ]; then case " $* " in *" $name "*) ;; *) continue;; esac; fi
  checks=$(python3 -c "import json;print(' '.join(json.load(open('$d/meta.json'))['detected_by_checks']))")
  if [ -z "$checks" ]; then echo "$name: recorded as not detected, skipped"; continue; fi
  if ! git -C $R apply --check $d/patch.diff 2>/dev/null; then echo "$name: patch no longer applies to this tree (the code it changes was repaired since), skipped"; continue; fi
  git -C $R apply $d/patch.diff
  hit=""
  for c in $checks; do
    if $V/bin/yqv check $c --tier quick 2>&1 | grep -q "^VIOLATION"; then hit="$hit $c"; fi
  done
  git -C $R checkout -q -- .
  if [ -z "$hit" ]; then echo "$name: NOT DETECTED any more (expected:$checks)"; fail=1; else echo "$name: detected by$hit"; fi
done
# the clean scratch tree must be quiet for every registered check (a corpus that alarms anyway proves nothing)
for c in $(python3 -c "import json;print(' '.join(x['property_id'] for x in json.load(open('/verif/MANIFEST.json'))['checks']))"); do
  [ $# -gt 0 ] && break
  if $V/bin/yqv check $c --tier quick 2>&1 | grep -q "^VIOLATION"; then echo "clean tree: $c ALARMS"; fail=1; fi
done
cd /
git -C /repo worktree remove --force $R
git -C /repo worktree prune
rm -rf $R $V
exit $fail
