#!/bin/bash
# Must-fail corpus: every seeded change under seeded/<name>/ that a check caught when it was recorded must
# still be caught. Applies each patch to /repo (which must be clean), runs the checks named in meta.json,
# expects a VIOLATION line that the unchanged tree does not give, and restores the tree.
# Development tool (it touches /repo's working tree): not a registered command.
set -u
export GOFLAGS=-mod=mod GOPROXY=off GOSUMDB=off GOTOOLCHAIN=local
cd /verif
if ! git -C /repo diff --quiet || ! git -C /repo diff --cached --quiet; then echo "/repo has uncommitted changes"; exit 2; fi
fail=0
for d in seeded/*/; do
  name=$(basename $d)
  [ -n "${1:-}" ] && [ "$1" != "$name" ] && continue
  checks=$(python3 -c "import json;print(' '.join(json.load(open('$d/meta.json'))['detected_by_checks']))")
  if [ -z "$checks" ]; then echo "$name: recorded as not detected, skipped"; continue; fi
  if ! git -C /repo apply --check /verif/$d/patch.diff 2>/dev/null; then echo "$name: patch no longer applies to this tree (the code it changes was repaired since), skipped"; continue; fi
  git -C /repo apply /verif/$d/patch.diff
  hit=""
  for c in $checks; do
    if ./bin/yqv check $c --tier quick 2>&1 | grep -q "^VIOLATION"; then hit="$hit $c"; fi
  done
  git -C /repo checkout -- .
  if [ -z "$hit" ]; then echo "$name: NOT DETECTED any more (expected:$checks)"; fail=1; else echo "$name: detected by$hit"; fi
done
# evidence files were rewritten by the seeded runs: refresh them on the clean tree
for c in $(python3 -c "import json;print(' '.join(x['property_id'] for x in json.load(open('MANIFEST.json'))['checks']))"); do ./bin/yqv check $c --tier quick >/dev/null 2>&1; done
exit $fail
