#!/bin/bash
# usage: tools_seed_triage.sh <suffix> "<prop> [other props]" ...
# Quick triage of freshly made seeds on scratch copies (neither /repo's working tree nor /verif/evidence is
# touched): applies /tmp/wt/<prop><suffix>/_seed/patch.diff to a scratch worktree of /repo HEAD and runs the
# named checks there. The recorded run is tools_seed.sh. Development tool (uses /tmp): not a registered command.
export GOFLAGS=-mod=mod GOPROXY=off GOSUMDB=off GOTOOLCHAIN=local
suf=$1; shift
R=/tmp/yqv_triage_repo; V=/tmp/yqv_triage_verif
git -C /repo worktree remove --force $R 2>/dev/null; rm -rf $R $V
git -C /repo worktree add -q --detach $R HEAD || exit 2
# NO_DIFF=1: take /repo's HEAD only (another tool has a seed applied in /repo's working tree right now);
# CONTRACTS=<file>: try out a contract file that is not committed yet
if [ -z "${NO_DIFF:-}" ]; then git -C /repo diff HEAD | git -C $R apply --allow-empty 2>/dev/null; fi
if [ -n "${CONTRACTS:-}" ]; then cp "$CONTRACTS" $R/pkg/yqlib/zz_verif_contracts.go; fi
if [ -n "${CONTRACTS_CMD:-}" ]; then cp "$CONTRACTS_CMD" $R/cmd/zz_verif_contracts.go; fi
git -C $R add -A >/dev/null; git -C $R -c user.name=triage -c user.email=t@t commit -qm "triage base" --allow-empty
mkdir -p $V; rsync -a --exclude .git --exclude replay --exclude evidence /verif/ $V/; mkdir -p $V/evidence $V/replay
export YQ_REPO=$R VERIF_DIR=$V
cd $V
for spec in "$@"; do
  set -- $spec; p=$1; shift
  pd=/tmp/wt/${p}${suf}/_seed/patch.diff
  [ -f $pd ] || { echo "== $p: no patch"; continue; }
  if ! git -C $R apply $pd; then echo "== $p: patch does not apply"; continue; fi
  hit=""
  for c in $p "$@"; do
    v=$($V/bin/yqv check $c --tier quick 2>&1 | grep "^VIOLATION" | head -3 | cut -c1-220)
    [ -n "$v" ] && { hit="$hit $c"; echo "$v"; }
  done
  git -C $R checkout -q -- .
  echo "== $p: detected by:$hit"
done
cd /; git -C /repo worktree remove --force $R; rm -rf $V
