package main

// C11, zero-annotation sweep: panic obligations of every yq function that has NO contract, generated without
// preconditions. Most of them cannot be proved that way (a nil parameter is a counterexample); those are not
// claimed. The ones that are provable from the function's own guards (a slice expression under a length test,
// an index under a range check, a division under a zero test, ...) are recorded by name in
// tables/c11_sweep_proved.json when `yqv sweep-record` is run on a tree, and re-proved on every check: a
// change that removes the guard fails the obligation. An obligation whose name no longer exists (the code
// was edited) is simply not claimed any more; nothing outside the recorded set can raise an alarm.

import (
	"encoding/json"
	"fmt"
	"os"
	"path/filepath"
	"sort"
	"strings"
	"sync"
	"time"
)

func loadSweepClaimed(verif string) map[string]bool {
	claimed := map[string]bool{}
	var t struct {
		Proved []string `json:"proved"`
	}
	if data, err := os.ReadFile(filepath.Join(verif, "tables", "c11_sweep_proved.json")); err == nil {
		json.Unmarshal(data, &t)
	}
	for _, n := range t.Proved {
		claimed[n] = true
	}
	return claimed
}

func sweepNames(P *Program) []string {
	var names []string
	for name, fn := range P.funcs {
		// a contract flagged nosafety claims no panic-freedom of its own: such a function stays in the sweep, so
		// that giving a function a functional or site contract never drops its recorded safety obligations
		if c := P.getContract(name); (c != nil && !c.flag("nosafety")) || strings.Contains(name, "$bound") || strings.Contains(name, "$thunk") || strings.HasPrefix(name, "cmd:") || len(fn.Blocks) == 0 {
			continue
		}
		names = append(names, name)
	}
	sort.Strings(names)
	return names
}

// sweepRun generates and discharges the safety obligations of the uncontracted functions; keep selects them.
func sweepRun(P *Program, to int, keep func(name string) bool) (results []oblResult, nfuncs int) {
	save := fastMode
	fastMode = true
	defer func() { fastMode = save }()
	names := sweepNames(P)
	dir, cleanup := tempDir()
	defer cleanup()
	var wg sync.WaitGroup
	var mu sync.Mutex
	sem := make(chan struct{}, 12)
	for _, n := range names {
		wg.Add(1)
		go func(n string) {
			defer wg.Done()
			sem <- struct{}{}
			defer func() { <-sem }()
			defer func() { recover() }() // a function outside the translator's subset is simply not swept
			vc, err := P.generateFixpoint(P.funcs[n], nil, genOpts{safety: true}, to)
			if err != nil {
				return
			}
			var sel []*Obligation
			for _, o := range vc.Obls {
				if !o.Cover && safetyKinds[o.Kind] && keep(o.Name) {
					sel = append(sel, o)
				}
			}
			if len(sel) == 0 {
				return
			}
			res := P.discharge(sel, dir, to, false, "")
			mu.Lock()
			results = append(results, res...)
			mu.Unlock()
		}(n)
	}
	wg.Wait()
	sort.Slice(results, func(i, j int) bool { return results[i].Obl.Name < results[j].Obl.Name })
	return results, len(names)
}

func safetySweep(P *Program, tier string) []extraResult {
	t0 := time.Now()
	claimed := loadSweepClaimed(P.verif)
	if len(claimed) == 0 {
		return nil
	}
	to := 10000
	if tier == "thorough" {
		to = 30000
	}
	results, nfuncs := sweepRun(P, to, func(name string) bool { return claimed[name] })
	var out []extraResult
	okc := 0
	for _, r := range results {
		if r.OK {
			okc++
			continue
		}
		out = append(out, extraResult{Name: "sweep/" + r.Obl.Name, Kind: "sweep", OK: false,
			Detail: fmt.Sprintf("%s:%d: a panic obligation (%s) that was proved without any precondition when it was recorded can no longer be proved\nmust hold: %s\nverdict %s %v", shortFile(r.Obl.Pos.Filename), r.Obl.Pos.Line, r.Obl.Kind, truncate(r.Obl.Cond, 600), r.Res.Verdict, r.Res.All)})
	}
	out = append([]extraResult{{Name: "safety/sweep", Kind: "sweep", OK: okc > 0, Count: okc,
		Detail: fmt.Sprintf("%d functions without a contract (or with one that claims no panic-freedom: nosafety) swept without annotations and preconditions; %d of the %d recorded panic obligations (tables/c11_sweep_proved.json) exist on this tree and were re-proved, %d failed", nfuncs, okc, len(claimed), len(out))}}, out...)
	for i := range out {
		out[i].Ms = time.Since(t0).Milliseconds()
	}
	return out
}

// sweepRecord proves what it can of every uncontracted function's panic obligations and writes the names.
func sweepRecord(P *Program) {
	results, nfuncs := sweepRun(P, 4000, func(string) bool { return true })
	var proved []string
	for _, r := range results {
		// only obligations decided quickly are recorded: they must stay far from the check's timeout
		if strings.Contains(r.Obl.Name, "/index/varargs[") {
			continue // carries no information
		}

		if r.OK && r.Res.Ms < 1500 {
			proved = append(proved, r.Obl.Name)
		} else if os.Getenv("YQV_SWEEP_LIST") != "" {
			fmt.Printf("unproved: %s  (%s)\n", r.Obl.Name, r.Obl.Pos)
		}
	}
	sort.Strings(proved)
	data, _ := json.MarshalIndent(map[string]interface{}{
		"comment": "panic obligations (nil dereference, index, slice, division, make, type assertion, explicit panic) of functions without a contract that are provable without any precondition (a dereference is provable when a test or an earlier dereference of the same value guards it); recorded by `yqv sweep-record`, re-proved by every C11 check; indexings of variadic argument arrays are left out",
		"proved":  proved,
	}, "", " ")
	os.WriteFile(filepath.Join(P.verif, "tables", "c11_sweep_proved.json"), data, 0o644)
	fmt.Printf("%d functions, %d obligations, %d proved and recorded\n", nfuncs, len(results), len(proved))
}

func init() {
	extraChecks["C11"] = append(extraChecks["C11"], safetySweep)
}
