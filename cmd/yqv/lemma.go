package main

// Spec-library lemmas: self-contained SMT queries that must be unsat (the negated lemma).
//
//   ;; lemma cmp_trans_ints {C15} needs=order.smt2
//   (declare-const a View) ...
//   (assert (not ...))
//   ;; end

import (
	"fmt"
	"regexp"
	"strings"
)

type Lemma struct {
	Name  string
	Props []string
	File  string
	Body  string
	Line  int
	Cover bool // expected sat (sanity/cover lemma)
}

var lemmaRe = regexp.MustCompile(`^;;\s*(lemma|cover)\s+([A-Za-z0-9_.\-]+)\s*(\{([A-Z0-9, ]+)\})?`)

func parseSpecFile(path, data string) (string, []*Lemma, error) {
	var body strings.Builder
	var lemmas []*Lemma
	var cur *Lemma
	var lb strings.Builder
	for i, line := range strings.Split(data, "\n") {
		t := strings.TrimSpace(line)
		if m := lemmaRe.FindStringSubmatch(t); m != nil {
			if cur != nil {
				return "", nil, fmt.Errorf("%s:%d: nested lemma", path, i+1)
			}
			cur = &Lemma{Name: m[2], File: path, Line: i + 1, Cover: m[1] == "cover"}
			for _, p := range strings.Split(m[4], ",") {
				if p = strings.TrimSpace(p); p != "" {
					cur.Props = append(cur.Props, p)
				}
			}
			lb.Reset()
			continue
		}
		if strings.HasPrefix(t, ";; end") {
			if cur == nil {
				return "", nil, fmt.Errorf("%s:%d: end without lemma", path, i+1)
			}
			cur.Body = lb.String()
			lemmas = append(lemmas, cur)
			cur = nil
			continue
		}
		if cur != nil {
			lb.WriteString(line)
			lb.WriteByte('\n')
		} else {
			body.WriteString(line)
			body.WriteByte('\n')
		}
	}
	if cur != nil {
		return "", nil, fmt.Errorf("%s: unterminated lemma %s", path, cur.Name)
	}
	return body.String(), lemmas, nil
}
