package main

import (
	"go/ast"
	"go/parser"
)

func cmdReplay(args []string)   {}
func cmdSelftest(args []string) {}

func parseExprString(s string) (ast.Expr, error) { return parser.ParseExpr(s) }
