package main

func cmdCheck(args []string)    {}
func cmdReplay(args []string)   {}
func cmdSelftest(args []string) {}
