package main

// Symbolic execution of SSA instructions into passive-form definitions and obligations.

import (
	"fmt"
	"go/token"
	"go/types"
	"math"
	"math/big"
	"strings"

	"golang.org/x/tools/go/ssa"
)

type bigInt = big.Int

func constBig(c *ssa.Const) (*big.Int, bool) {
	if c.Value == nil {
		return big.NewInt(0), true
	}
	s := c.Value.ExactString()
	if v, ok := new(big.Int).SetString(s, 10); ok {
		return v, true
	}
	// a constant of float kind converted to an integer type
	return big.NewInt(c.Int64()), true
}

func constString(c *ssa.Const) string {
	if c.Value == nil {
		return ""
	}
	return constantStringVal(c)
}

func floatLit(f float64) string {
	if math.IsInf(f, 0) || math.IsNaN(f) {
		return "0.0"
	}
	r := new(big.Rat).SetFloat64(f)
	neg := r.Sign() < 0
	if neg {
		r.Neg(r)
	}
	s := fmt.Sprintf("(/ %s.0 %s.0)", r.Num().String(), r.Denom().String())
	if neg {
		return "(- " + s + ")"
	}
	return s
}

func (g *gen) srcText(p token.Pos, fallback string) string {
	return fallback
}

// exprText renders the source expression an instruction came from, for obligation names.
func (g *gen) exprText(v ssa.Value) string {
	if v == nil {
		return "?"
	}
	switch x := v.(type) {
	case *ssa.Const:
		if x.Value != nil {
			return x.Value.String()
		}
		return "nil"
	case *ssa.Parameter:
		return x.Name()
	case *ssa.FreeVar:
		return x.Name()
	case *ssa.Global:
		return x.Name()
	case *ssa.Phi:
		if x.Comment != "" {
			return x.Comment
		}
	case *ssa.Alloc:
		if x.Comment != "" {
			return x.Comment
		}
	case *ssa.FieldAddr:
		st, _ := structUnder(x.X.Type())
		return g.exprText(x.X) + "." + st.Field(x.Field).Name()
	case *ssa.Field:
		st, _ := structUnder(x.X.Type())
		return g.exprText(x.X) + "." + st.Field(x.Field).Name()
	case *ssa.IndexAddr:
		return g.exprText(x.X) + "[" + g.exprText(x.Index) + "]"
	case *ssa.Index:
		return g.exprText(x.X) + "[" + g.exprText(x.Index) + "]"
	case *ssa.Lookup:
		return g.exprText(x.X) + "[" + g.exprText(x.Index) + "]"
	case *ssa.UnOp:
		if x.Op == token.MUL {
			return g.exprText(x.X)
		}
		return x.Op.String() + g.exprText(x.X)
	case *ssa.BinOp:
		return g.exprText(x.X) + x.Op.String() + g.exprText(x.Y)
	case *ssa.Call:
		if f := x.Call.StaticCallee(); f != nil {
			return f.Name() + "()"
		}
		if x.Call.IsInvoke() {
			return g.exprText(x.Call.Value) + "." + x.Call.Method.Name() + "()"
		}
		if b, ok := x.Call.Value.(*ssa.Builtin); ok {
			var as []string
			for _, a := range x.Call.Args {
				as = append(as, g.exprText(a))
			}
			return b.Name() + "(" + strings.Join(as, ",") + ")"
		}
		return g.exprText(x.Call.Value) + "()"
	case *ssa.Extract:
		return g.exprText(x.Tuple) + "#" + fmt.Sprint(x.Index)
	case *ssa.TypeAssert:
		return g.exprText(x.X) + ".(" + types.TypeString(x.AssertedType, func(*types.Package) string { return "" }) + ")"
	case *ssa.Slice:
		return g.exprText(x.X) + "[" + optText(g, x.Low) + ":" + optText(g, x.High) + "]"
	case *ssa.Convert:
		return g.exprText(x.X)
	case *ssa.ChangeType:
		return g.exprText(x.X)
	case *ssa.MakeInterface:
		return g.exprText(x.X)
	case *ssa.ChangeInterface:
		return g.exprText(x.X)
	}
	// a named local from debug info?
	if name, ok := g.debugName(v); ok {
		return name
	}
	return "_"
}

func optText(g *gen, v ssa.Value) string {
	if v == nil {
		return ""
	}
	return g.exprText(v)
}

func (g *gen) debugName(v ssa.Value) (string, bool) {
	refs := v.Referrers()
	if refs == nil {
		return "", false
	}
	for _, r := range *refs {
		if d, ok := r.(*ssa.DebugRef); ok && !d.IsAddr {
			if obj := d.Object(); obj != nil {
				if _, isVar := obj.(*types.Var); isVar {
					return obj.Name(), true
				}
			}
		}
	}
	return "", false
}

func (g *gen) setVal(v ssa.Value, term string) {
	// keep terms small: name anything non-trivial
	if len(term) > 60 {
		term = g.define("v."+v.Name(), g.sorts.sortOf(v.Type()), term)
	}
	g.vals[v] = term
}

func (g *gen) execInstr(in ssa.Instruction, st *state) {
	switch x := in.(type) {
	case *ssa.DebugRef:
		return
	case *ssa.Alloc:
		g.execAlloc(x, st)
	case *ssa.BinOp:
		g.execBinOp(x, st)
	case *ssa.UnOp:
		g.execUnOp(x, st)
	case *ssa.Call:
		g.execCall(x, &x.Call, x, st)
	case *ssa.Defer:
		g.defers = append(g.defers, x)
	case *ssa.RunDefers:
		for i := len(g.defers) - 1; i >= 0; i-- {
			d := g.defers[i]
			if d.Block().Dominates(g.curBlock) {
				g.execCall(d, &d.Call, nil, st)
				continue
			}
			// the defer statement is only on some paths to this point: its effect is conditional
			dg, ok := g.guard[d.Block()]
			if !ok {
				continue // never reached
			}
			pre := st.clone()
			saveGuard := g.curGuard
			g.curGuard = sAnd(saveGuard, dg)
			g.execCall(d, &d.Call, nil, st)
			g.curGuard = saveGuard
			g.mergeConditional(st, pre, dg)
		}
	case *ssa.Go:
		g.note("go statement in %s: heap havocked", g.vc.Func)
		g.havocAll(st)
	case *ssa.ChangeInterface:
		g.vals[x] = g.val(st, x.X)
	case *ssa.ChangeType:
		g.vals[x] = g.val(st, x.X)
		g.checkFuncConversion(x)
		if g.zeroOff[x.X] {
			g.zeroOff[x] = true
		}
	case *ssa.Convert:
		g.execConvert(x, st)
	case *ssa.MakeInterface:
		v := g.val(st, x.X)
		g.setVal(x, app("mk-iface", g.sorts.typeTag(x.X.Type()), g.sorts.box(x.X.Type(), v)))
	case *ssa.MakeClosure:
		r := g.newRef(st, "closure")
		g.vals[x] = r
		g.closures[x] = x
		for bi, b := range x.Bindings {
			if l, ok := g.locs[b]; ok && l.kind == locLocal {
				g.escaped[l.alloc] = true
			}
			if a, ok := b.(*ssa.Alloc); ok && a.Heap {
				// only a closure that leaves this function (passed on, stored) can be run by arbitrary callees
				if t, ok := g.vals[a]; ok && closureEscapes(x) && g.closureMayWrite(x.Fn.(*ssa.Function), bi) {
					g.captured = append(g.captured, t)
					if g.capturedType == nil {
						g.capturedType = map[string]types.Type{}
					}
					g.capturedType[t] = deref(a.Type())
				}
			}
		}
	case *ssa.MakeSlice:
		ln := g.val(st, x.Len)
		if g.opts.safety {
			g.obligeAssume("makeslice", "make(len "+g.exprText(x.Len)+")", x.Pos(), app(">=", ln, "0"), nil)
		}
		r := g.newRef(st, "arr")
		et := x.Type().Underlying().(*types.Slice).Elem()
		h, name := g.elemArr(st, et)
		g.setHeap(st, name, g.heapSort(name), app("store", h, r, app("(as const (Array Int "+g.sorts.sortOf(et)+"))", g.sorts.zero(et))))
		g.setVal(x, app("mk-slice", r, "0", ln))
	case *ssa.MakeMap:
		r := g.newRef(st, "map")
		g.vals[x] = r
		if mt, ok := x.Type().Underlying().(*types.Map); ok {
			if _, present, ok := g.mapHeaps(st, mt); ok {
				// a new map holds nothing
				ks := g.sorts.sortOf(mt.Key())
				_, pn := mapHeapNames(mt)
				g.setHeap(st, pn, "(Array Int (Array "+ks+" Bool))", app("store", present, r, "((as const (Array "+ks+" Bool)) false)"))
			}
		}
	case *ssa.MakeChan:
		g.vals[x] = g.newRef(st, "chan")
	case *ssa.Extract:
		tup := g.tuples[x.Tuple]
		if tup == nil {
			g.val(st, x.Tuple)
			tup = g.tuples[x.Tuple]
		}
		if tup == nil || x.Index >= len(tup) {
			g.vals[x] = g.newConst("extract", g.sorts.sortOf(x.Type()))
		} else {
			g.vals[x] = tup[x.Index]
		}
	case *ssa.Field:
		v := g.val(st, x.X)
		s := g.sorts.sortOf(x.X.Type())
		g.setVal(x, app(g.sorts.fieldAcc(s, x.Field), v))
	case *ssa.FieldAddr:
		g.execFieldAddr(x, st)
	case *ssa.IndexAddr:
		g.execIndexAddr(x, st)
	case *ssa.Index:
		g.execIndex(x, st)
	case *ssa.Lookup:
		g.execLookup(x, st)
	case *ssa.Slice:
		g.execSlice(x, st)
	case *ssa.TypeAssert:
		g.execTypeAssert(x, st)
	case *ssa.Range:
		g.execRange(x, st)
	case *ssa.Next:
		g.execNext(x, st)
	case *ssa.Store:
		g.execStore(x, st)
	case *ssa.MapUpdate:
		g.execMapUpdate(x, st)
	case *ssa.Select, *ssa.Send:
		g.note("channel operation in %s: heap havocked", g.vc.Func)
		g.havocAll(st)
		if v, ok := in.(ssa.Value); ok {
			g.vals[v] = g.newConst("chan", g.sorts.sortOf(v.Type()))
		}
	case *ssa.If, *ssa.Jump:
	case *ssa.Return:
		g.execReturn(x, st)
	case *ssa.Panic:
		if g.opts.safety && !g.con.flag("maypanic") {
			g.oblige("panic", "panic("+g.exprText(x.X)+")", x.Pos(), "false", nil)
		}
	case *ssa.SliceToArrayPointer, *ssa.MultiConvert:
		g.vals[x.(ssa.Value)] = g.newConst("conv", g.sorts.sortOf(x.(ssa.Value).Type()))
	default:
		g.note("unsupported instruction %T in %s: result unconstrained", in, g.vc.Func)
		if v, ok := in.(ssa.Value); ok {
			g.vals[v] = g.newConst("unsup", g.sorts.sortOf(v.Type()))
		}
	}
}

func (g *gen) execAlloc(x *ssa.Alloc, st *state) {
	et := deref(x.Type())
	if !x.Heap {
		st.cells[x] = g.sorts.zero(et)
		g.locs[x] = &loc{kind: locLocal, alloc: x, vtype: et}
		return
	}
	r := g.newRef(st, sanitize(x.Comment))
	g.vals[x] = r
	if types.TypeString(et, nil) == "strings.Builder" {
		h := g.heapVar(st, sbHeap, sbSort)
		g.setHeap(st, sbHeap, sbSort, app("store", h, r, "rnil"))
		return
	}
	switch u := et.Underlying().(type) {
	case *types.Struct:
		for i := 0; i < u.NumFields(); i++ {
			h, name := g.fieldArr(st, et, i)
			g.setHeap(st, name, g.heapSort(name), app("store", h, r, g.sorts.zero(u.Field(i).Type())))
		}
	case *types.Array:
		h, name := g.elemArr(st, u.Elem())
		g.setHeap(st, name, g.heapSort(name), app("store", h, r, app("(as const (Array Int "+g.sorts.sortOf(u.Elem())+"))", g.sorts.zero(u.Elem()))))
	default:
		h, name := g.cellArr(st, et)
		g.setHeap(st, name, g.heapSort(name), app("store", h, r, g.sorts.zero(et)))
		g.locs[x] = &loc{kind: locCell, base: r, typ: et, vtype: et}
	}
}

func (g *gen) execFieldAddr(x *ssa.FieldAddr, st *state) {
	pt := deref(x.X.Type())
	sty := pt.Underlying().(*types.Struct)
	ft := sty.Field(x.Field).Type()
	if bl, ok := g.locs[x.X]; ok && (bl.kind != locCell || true) && !isPlainRef(bl) {
		// nested: field of a struct value stored at a tracked location
		nl := *bl
		nl.path = append(append([]pathStep{}, bl.path...), pathStep{field: x.Field, st: pt})
		nl.vtype = ft
		g.locs[x] = &nl
		return
	}
	base := g.val(st, x.X)
	if g.opts.safety {
		g.obligeAssume("nil", g.exprText(x.X)+"."+sty.Field(x.Field).Name(), x.Pos(), sNot(sEq(base, "0")), nil)
	} else {
		g.assume(sNot(sEq(base, "0")))
	}
	g.locs[x] = &loc{kind: locField, base: base, typ: pt, field: x.Field, vtype: ft}
}

// isPlainRef: the tracked location is a generic cell whose content is not a struct (so X of a FieldAddr cannot be it).
func isPlainRef(l *loc) bool { return false }

func (g *gen) execIndexAddr(x *ssa.IndexAddr, st *state) {
	idx := g.val(st, x.Index)
	switch u := x.X.Type().Underlying().(type) {
	case *types.Slice:
		s := g.val(st, x.X)
		if g.opts.safety {
			g.obligeAssume("index", g.exprText(x), x.Pos(), sAnd(app("<=", "0", idx), app("<", idx, app("s.len", s))), nil)
		}
		g.locs[x] = &loc{kind: locElem, base: app("s.base", s), idx: addOff(app("s.off", s), idx), typ: u.Elem(), vtype: u.Elem()}
	case *types.Pointer:
		at := u.Elem().Underlying().(*types.Array)
		if g.opts.safety {
			g.obligeAssume("index", g.exprText(x), x.Pos(), sAnd(app("<=", "0", idx), app("<", idx, fmt.Sprint(at.Len()))), nil)
		}
		if bl, ok := g.locs[x.X]; ok {
			nl := *bl
			nl.path = append(append([]pathStep{}, bl.path...), pathStep{field: -1, idx: idx})
			nl.vtype = at.Elem()
			g.locs[x] = &nl
			return
		}
		base := g.val(st, x.X)
		g.locs[x] = &loc{kind: locElem, base: base, idx: idx, typ: at.Elem(), vtype: at.Elem()}
	default:
		g.fail("IndexAddr on %s", x.X.Type())
	}
}

// addOff: absolute index into a backing array. A non-zero offset goes through the function `at`
// (at o i = o + i) so that quantifier triggers contain no arithmetic.
func addOff(off, idx string) string {
	if off == "0" {
		return idx
	}
	if idx == "0" {
		return off
	}
	return app("at", off, idx)
}

func (g *gen) sliceParts(s string) (base, off, ln string) {
	if strings.HasPrefix(s, "(mk-slice ") {
		parts := splitSexp(s[len("(mk-slice ") : len(s)-1])
		if len(parts) == 3 {
			return parts[0], parts[1], parts[2]
		}
	}
	return app("s.base", s), app("s.off", s), app("s.len", s)
}

func splitSexp(s string) []string {
	var out []string
	d := 0
	start := -1
	inStr := false
	for i := 0; i < len(s); i++ {
		c := s[i]
		if inStr {
			if c == '"' {
				inStr = false
				if d == 0 {
					out = append(out, s[start:i+1])
					start = -1
				}
			}
			continue
		}
		switch c {
		case '"':
			inStr = true
			if d == 0 && start < 0 {
				start = i
			}
		case '(':
			if d == 0 && start < 0 {
				start = i
			}
			d++
		case ')':
			d--
			if d == 0 {
				out = append(out, s[start:i+1])
				start = -1
			}
		case ' ', '\n', '\t', '\r':
			if d == 0 && start >= 0 {
				out = append(out, s[start:i])
				start = -1
			}
		default:
			if d == 0 && start < 0 {
				start = i
			}
		}
	}
	if start >= 0 {
		out = append(out, s[start:])
	}
	return out
}

func (g *gen) execIndex(x *ssa.Index, st *state) {
	idx := g.val(st, x.Index)
	v := g.val(st, x.X)
	switch u := x.X.Type().Underlying().(type) {
	case *types.Basic: // string
		if g.opts.safety {
			g.obligeAssume("index", g.exprText(x), x.Pos(), sAnd(app("<=", "0", idx), app("<", idx, app("str.len", v))), nil)
		}
		g.setVal(x, app("str.to_code", app("str.at", v, idx)))
	case *types.Array:
		if g.opts.safety {
			g.obligeAssume("index", g.exprText(x), x.Pos(), sAnd(app("<=", "0", idx), app("<", idx, fmt.Sprint(u.Len()))), nil)
		}
		g.setVal(x, app("select", v, idx))
	default:
		g.vals[x] = g.newConst("index", g.sorts.sortOf(x.Type()))
	}
}

func (g *gen) execLookup(x *ssa.Lookup, st *state) {
	if isString(x.X.Type()) {
		idx := g.val(st, x.Index)
		v := g.val(st, x.X)
		if g.opts.safety {
			g.obligeAssume("index", g.exprText(x), x.Pos(), sAnd(app("<=", "0", idx), app("<", idx, app("str.len", v))), nil)
		}
		g.setVal(x, app("str.to_code", app("str.at", v, idx)))
		return
	}
	mt := x.X.Type().Underlying().(*types.Map)
	m := g.val(st, x.X)
	if vals, present, ok := g.mapHeaps(st, mt); ok {
		// modelled map: value array and presence array per map object
		k := g.val(st, x.Index)
		isIn := g.define("mapok", "Bool", sAnd(sNot(sEq(m, "0")), app("select", app("select", present, m), k)))
		res := g.define("mapval", g.sorts.sortOf(mt.Elem()), sIte(isIn, app("select", app("select", vals, m), k), g.sorts.zero(mt.Elem())))
		g.assumeAllocated(st, res, mt.Elem())
		if x.CommaOk {
			g.tuples[x] = []string{res, isIn}
		} else {
			g.vals[x] = res
		}
		return
	}
	// map lookup: uninterpreted in (map, key, map-version)
	vs := g.sorts.sortOf(mt.Elem())
	res := g.newConst("mapval", vs)
	g.assumeAllocated(st, res, mt.Elem())
	if x.CommaOk {
		ok := g.newConst("mapok", "Bool")
		g.assert(sImp(sNot(ok), sEq(res, g.sorts.zero(mt.Elem()))))
		g.assert(sImp(sEq(m, "0"), sNot(ok)))
		g.tuples[x] = []string{res, ok}
	} else {
		g.assert(sImp(sEq(m, "0"), sEq(res, g.sorts.zero(mt.Elem()))))
		g.vals[x] = res
	}
}

// mapHeaps: maps with string or integer keys are modelled as two heap arrays indexed by the map object:
// key -> value and key -> present. Other key types stay unmodelled (lookups unconstrained).
func mapHeapNames(mt *types.Map) (string, string) {
	return "M." + typeKey(mt), "MP." + typeKey(mt)
}

func (g *gen) mapModelled(mt *types.Map) bool {
	ks := g.sorts.sortOf(mt.Key())
	return ks == "String" || ks == "Int"
}

func (g *gen) mapHeaps(st *state, mt *types.Map) (string, string, bool) {
	if !g.mapModelled(mt) {
		return "", "", false
	}
	ks, vs := g.sorts.sortOf(mt.Key()), g.sorts.sortOf(mt.Elem())
	vn, pn := mapHeapNames(mt)
	g.heapKinds[vn] = ""
	vals := g.heapVar(st, vn, "(Array Int (Array "+ks+" "+vs+"))")
	present := g.heapVar(st, pn, "(Array Int (Array "+ks+" Bool))")
	return vals, present, true
}

func (g *gen) execMapUpdate(x *ssa.MapUpdate, st *state) {
	m := g.val(st, x.Map)
	if g.opts.safety {
		g.obligeAssume("nil", "map "+g.exprText(x.Map), x.Pos(), sNot(sEq(m, "0")), nil)
	}
	mt := x.Map.Type().Underlying().(*types.Map)
	vals, present, ok := g.mapHeaps(st, mt)
	if !ok {
		return
	}
	if g.opts.frames {
		vn, _ := mapHeapNames(mt)
		g.frameObject(st, vn, m, x, g.exprText(x.Map)+"[...] =")
	}
	k, v := g.val(st, x.Key), g.val(st, x.Value)
	ks, vs := g.sorts.sortOf(mt.Key()), g.sorts.sortOf(mt.Elem())
	vn, pn := mapHeapNames(mt)
	g.setHeap(st, vn, "(Array Int (Array "+ks+" "+vs+"))", app("store", vals, m, app("store", app("select", vals, m), k, v)))
	g.setHeap(st, pn, "(Array Int (Array "+ks+" Bool))", app("store", present, m, app("store", app("select", present, m), k, "true")))
}

func (g *gen) execSlice(x *ssa.Slice, st *state) {
	var lo, hi string
	if x.Low != nil {
		lo = g.val(st, x.Low)
	} else {
		lo = "0"
	}
	switch u := x.X.Type().Underlying().(type) {
	case *types.Basic: // string
		s := g.val(st, x.X)
		if x.High != nil {
			hi = g.val(st, x.High)
		} else {
			hi = app("str.len", s)
		}
		if g.opts.safety {
			g.obligeAssume("slice", g.exprText(x), x.Pos(), sAnd(app("<=", "0", lo), app("<=", lo, hi), app("<=", hi, app("str.len", s))), nil)
		}
		g.setVal(x, app("str.substr", s, lo, app("-", hi, lo)))
	case *types.Slice:
		s := g.val(st, x.X)
		base, off, ln := g.sliceParts(s)
		if x.High != nil {
			hi = g.val(st, x.High)
		} else {
			hi = ln
		}
		if g.opts.safety {
			// the upper limit is cap(s); we only know len <= cap, so require hi <= len (stricter than Go; noted)
			g.obligeAssume("slice", g.exprText(x), x.Pos(), sAnd(app("<=", "0", lo), app("<=", lo, hi), app("<=", hi, ln)), nil)
		}
		_ = u
		g.setVal(x, app("mk-slice", base, plusOff(off, lo), app("-", hi, lo)))
	case *types.Pointer: // pointer to array
		at := u.Elem().Underlying().(*types.Array)
		n := fmt.Sprint(at.Len())
		if x.High != nil {
			hi = g.val(st, x.High)
		} else {
			hi = n
		}
		if g.opts.safety && (x.Low != nil || x.High != nil) {
			g.obligeAssume("slice", g.exprText(x), x.Pos(), sAnd(app("<=", "0", lo), app("<=", lo, hi), app("<=", hi, n)), nil)
		}
		var base string
		if bl, ok := g.locs[x.X]; ok && bl.kind == locLocal {
			// slicing a local array: give it a heap identity holding the current content
			base = g.newRef(st, "arr")
			h, name := g.elemArr(st, at.Elem())
			g.setHeap(st, name, g.heapSort(name), app("store", h, base, g.load(st, bl)))
			g.escaped[bl.alloc] = true
			g.note("local array sliced in %s: modelled as a copy", g.vc.Func)
		} else {
			base = g.val(st, x.X)
		}
		ln := app("-", hi, lo)
		if lo == "0" {
			ln = hi
		}
		g.setVal(x, app("mk-slice", base, lo, ln))
	default:
		g.fail("Slice on %s", x.X.Type())
	}
}

func (g *gen) execTypeAssert(x *ssa.TypeAssert, st *state) {
	v := g.val(st, x.X)
	var ok, res string
	if isIface(x.AssertedType) {
		it := x.AssertedType.Underlying().(*types.Interface)
		if it.NumMethods() == 0 {
			ok = sNot(sEq(app("i.typ", v), "0"))
		} else {
			ok = sAnd(sNot(sEq(app("i.typ", v), "0")), app("implements", app("i.typ", v), g.sorts.typeTag(x.AssertedType)))
		}
		res = v
	} else {
		ok = sEq(app("i.typ", v), g.sorts.typeTag(x.AssertedType))
		res = g.sorts.unbox(x.AssertedType, app("i.val", v))
	}
	if x.CommaOk {
		okc := g.define("taok", "Bool", ok)
		r := g.define("ta", g.sorts.sortOf(x.AssertedType), sIte(okc, res, g.sorts.zero(x.AssertedType)))
		g.tuples[x] = []string{r, okc}
		return
	}
	if g.opts.safety && !g.opts.assumeTypeAsserts {
		g.obligeAssume("typeassert", g.exprText(x), x.Pos(), ok, nil)
	} else {
		g.assume(ok)
	}
	g.setVal(x, res)
	if _, isPtr := x.AssertedType.Underlying().(*types.Pointer); isPtr {
		g.assume(sAnd(app("<=", g.vals[x], st.top)))
	}
}

func (g *gen) execStore(x *ssa.Store, st *state) {
	l, ok := g.locs[x.Addr]
	v := g.val(st, x.Val)
	if !ok {
		// store through a generic pointer
		ref := g.val(st, x.Addr)
		et := deref(x.Addr.Type())
		if g.opts.safety {
			g.obligeAssume("nil", "*"+g.exprText(x.Addr), x.Pos(), sNot(sEq(ref, "0")), nil)
		}
		if _, isStruct := et.Underlying().(*types.Struct); isStruct {
			s := g.sorts.sortOf(et)
			su := et.Underlying().(*types.Struct)
			for i := 0; i < su.NumFields(); i++ {
				fl := &loc{kind: locField, base: ref, typ: et, field: i}
				g.frameStore(st, fl, x)
				g.store(st, fl, app(g.sorts.fieldAcc(s, i), v))
			}
			return
		}
		l = &loc{kind: locCell, base: ref, typ: et, vtype: et}
	}
	g.frameStore(st, l, x)
	g.store(st, l, v)
}

func (g *gen) execUnOp(x *ssa.UnOp, st *state) {
	switch x.Op {
	case token.MUL: // load
		if l, ok := g.locs[x.X]; ok {
			v := g.load(st, l)
			g.setVal(x, v)
			g.assumeAllocated(st, g.vals[x], x.Type())
			if g.zeroOffLoad(x) {
			}
			return
		}
		if gl, ok := x.X.(*ssa.Global); ok {
			v, _ := g.globalVar(st, gl)
			g.vals[x] = v
			g.assumeAllocated(st, v, x.Type())
			if gl.Pkg != nil && !g.P.isYq(gl.Pkg.Pkg.Path()) && types.TypeString(x.Type(), nil) == "error" && (gl.Name() == "EOF" || strings.HasPrefix(gl.Name(), "Err")) {
				// sentinel errors of libraries (io.EOF, io.ErrUnexpectedEOF, ...) are never nil
				g.assume(sNot(sEq(app("i.typ", v), "0")))
				g.P.usedAssumption("library sentinel error " + gl.String() + " is non-nil")
			}
			return
		}
		ref := g.val(st, x.X)
		et := x.Type()
		if g.opts.safety {
			g.obligeAssume("nil", "*"+g.exprText(x.X), x.Pos(), sNot(sEq(ref, "0")), nil)
		}
		if _, isStruct := et.Underlying().(*types.Struct); isStruct {
			g.setVal(x, g.loadStruct(st, ref, et))
			return
		}
		h, _ := g.cellArr(st, et)
		g.setVal(x, app("select", h, ref))
		g.assumeAllocated(st, g.vals[x], x.Type())
	case token.NOT:
		g.setVal(x, sNot(g.val(st, x.X)))
	case token.SUB:
		v := g.val(st, x.X)
		if isInt(x.Type()) {
			g.setVal(x, wrapTerm(x.Type(), app("-", v)))
		} else {
			g.setVal(x, app("-", v))
		}
	case token.XOR:
		v := g.val(st, x.X)
		if isInt(x.Type()) {
			g.setVal(x, wrapTerm(x.Type(), app("-", app("-", v), "1")))
		} else {
			g.vals[x] = g.newConst("xor", g.sorts.sortOf(x.Type()))
		}
	case token.ARROW:
		g.note("channel receive in %s", g.vc.Func)
		g.havocAll(st)
		if x.CommaOk {
			g.tuples[x] = []string{g.newConst("recv", g.sorts.sortOf(x.Type().(*types.Tuple).At(0).Type())), g.newConst("recvok", "Bool")}
		} else {
			g.vals[x] = g.newConst("recv", g.sorts.sortOf(x.Type()))
		}
	default:
		g.vals[x] = g.newConst("unop", g.sorts.sortOf(x.Type()))
	}
}

func (g *gen) zeroOffLoad(x *ssa.UnOp) bool { return false }

func (g *gen) execBinOp(x *ssa.BinOp, st *state) {
	a, b := g.val(st, x.X), g.val(st, x.Y)
	t := x.X.Type()
	switch x.Op {
	case token.EQL, token.NEQ:
		var eq string
		switch t.Underlying().(type) {
		case *types.Slice:
			// only comparison with nil is legal
			if c, ok := x.Y.(*ssa.Const); ok && c.Value == nil {
				eq = sEq(app("s.base", a), "0")
			} else {
				eq = sEq(app("s.base", b), "0")
			}
		case *types.Interface:
			if c, ok := x.Y.(*ssa.Const); ok && c.Value == nil {
				eq = sEq(app("i.typ", a), "0")
			} else if c, ok := x.X.(*ssa.Const); ok && c.Value == nil {
				eq = sEq(app("i.typ", b), "0")
			} else {
				eq = sEq(a, b)
			}
		default:
			eq = sEq(a, b)
		}
		if x.Op == token.NEQ {
			eq = sNot(eq)
		}
		g.setVal(x, eq)
	case token.LSS, token.LEQ, token.GTR, token.GEQ:
		if isString(t) {
			switch x.Op {
			case token.LSS:
				g.setVal(x, app("str.<", a, b))
			case token.LEQ:
				g.setVal(x, app("str.<=", a, b))
			case token.GTR:
				g.setVal(x, app("str.<", b, a))
			case token.GEQ:
				g.setVal(x, app("str.<=", b, a))
			}
			return
		}
		op := map[token.Token]string{token.LSS: "<", token.LEQ: "<=", token.GTR: ">", token.GEQ: ">="}[x.Op]
		g.setVal(x, app(op, a, b))
	case token.ADD:
		switch {
		case isString(t):
			g.setVal(x, app("str.++", a, b))
			if g.con.flag("runes") {
				g.runeFacts(x.X, a)
				g.runeFacts(x.Y, b)
				g.assume(sEq(app("runesOf", g.vals[x]), app("rapp", app("runesOf", a), app("runesOf", b))))
			}
		case isInt(t):
			g.setVal(x, g.wrapArith(x.Type(), app("+", a, b), x, st))
		default:
			g.setVal(x, app("+", a, b))
		}
	case token.SUB:
		if isInt(t) {
			g.setVal(x, g.wrapArith(x.Type(), app("-", a, b), x, st))
		} else {
			g.setVal(x, app("-", a, b))
		}
	case token.MUL:
		if isInt(t) {
			g.setVal(x, wrapTerm(x.Type(), app("*", a, b)))
		} else {
			g.setVal(x, app("*", a, b))
		}
	case token.QUO:
		if isInt(t) {
			if g.opts.safety {
				g.obligeAssume("div", g.exprText(x), x.Pos(), sNot(sEq(b, "0")), nil)
			}
			g.setVal(x, wrapTerm(x.Type(), app("tdiv", a, b)))
		} else {
			g.setVal(x, app("/", a, b))
		}
	case token.REM:
		if isInt(t) {
			if g.opts.safety {
				g.obligeAssume("div", g.exprText(x), x.Pos(), sNot(sEq(b, "0")), nil)
			}
			g.setVal(x, app("tmod", a, b))
		} else {
			g.vals[x] = g.newConst("rem", "Real")
		}
	default:
		// bit operations: only the cases with constant masks are modelled
		if isInt(t) {
			if c, ok := x.Y.(*ssa.Const); ok {
				if k, ok2 := constBig(c); ok2 && k.IsInt64() {
					kv := k.Int64()
					switch x.Op {
					case token.SHL:
						if kv >= 0 && kv < 63 {
							g.setVal(x, wrapTerm(x.Type(), app("*", a, new(big.Int).Lsh(big.NewInt(1), uint(kv)).String())))
							return
						}
					case token.SHR:
						if kv >= 0 && kv < 63 {
							g.setVal(x, app("div", a, new(big.Int).Lsh(big.NewInt(1), uint(kv)).String()))
							return
						}
					case token.AND:
						if kv > 0 && (kv&(kv+1)) == 0 { // mask 2^n-1
							g.setVal(x, app("mod", a, fmt.Sprint(kv+1)))
							return
						}
					}
				}
			}
			r := g.newConst("bitop", "Int")
			bits, signed := intRange(x.Type())
			lo, hi := rangeOf(bits, signed)
			g.assert(sAnd(app("<=", lo, r), app("<=", r, hi)))
			g.vals[x] = r
			return
		}
		g.vals[x] = g.newConst("binop", g.sorts.sortOf(x.Type()))
	}
}

func rangeOf(bits int, signed bool) (string, string) {
	if signed {
		lo := new(big.Int).Neg(new(big.Int).Lsh(big.NewInt(1), uint(bits-1)))
		hi := new(big.Int).Sub(new(big.Int).Lsh(big.NewInt(1), uint(bits-1)), big.NewInt(1))
		return bigLit(lo), bigLit(hi)
	}
	hi := new(big.Int).Sub(new(big.Int).Lsh(big.NewInt(1), uint(bits)), big.NewInt(1))
	return "0", bigLit(hi)
}

// wrapArith applies two's-complement wrap-around, except for the arithmetic on small offsets of lengths
// and indices (x + c, x - c with |c| <= 2 where x is bounded by a length), which cannot overflow under
// the stated len <= 2^56 assumption.
func (g *gen) wrapArith(t types.Type, term string, x *ssa.BinOp, st *state) string {
	return wrapTerm(t, term)
}

func (g *gen) execConvert(x *ssa.Convert, st *state) {
	v := g.val(st, x.X)
	from, to := x.X.Type(), x.Type()
	switch {
	case isInt(from) && isInt(to):
		fb, fs := intRange(from)
		tb, ts := intRange(to)
		if fb == tb && fs == ts || (tb > fb && (ts || !fs)) {
			g.vals[x] = v
		} else {
			g.setVal(x, wrapTerm(to, v))
		}
	case isInt(from) && isFloat(to):
		g.setVal(x, app("rnd", v))
	case isFloat(from) && isInt(to):
		r := g.define("f2i", "Int", wrapTerm(to, app("ftrunc", v)))
		g.needFtrunc()
		g.vals[x] = r
	case isFloat(from) && isFloat(to):
		g.vals[x] = v
	case isString(from) && isString(to):
		g.vals[x] = v
	case isInt(from) && isString(to):
		g.setVal(x, app("runeToString", v))
		g.declareFun("runeToString", "(Int) String")
	case isString(to):
		// []byte or []rune to string
		g.declareFun("bytesToString", "(Slice Int) String")
		h, _ := g.elemArr(st, from.Underlying().(*types.Slice).Elem())
		_ = h
		g.vals[x] = g.newConst("str", "String")
	case isString(from):
		// string to []byte / []rune: fresh slice
		r := g.newRef(st, "arr")
		ln := g.newConst("convlen", "Int")
		g.assert(app(">=", ln, "0"))
		if b, ok := to.Underlying().(*types.Slice).Elem().Underlying().(*types.Basic); ok && b.Kind() == types.Uint8 {
			g.assert(sEq(ln, app("str.len", v)))
			h, name := g.elemArr(st, to.Underlying().(*types.Slice).Elem())
			arr := g.newConst("bytes", "(Array Int Int)")
			q := fmt.Sprintf("(forall ((j Int)) (! (=> (and (<= 0 j) (< j %s)) (= (select %s j) (str.to_code (str.at %s j)))) :pattern ((select %s j))))", ln, arr, v, arr)
			g.assert(q)
			g.setHeap(st, name, g.heapSort(name), app("store", h, r, arr))
		} else {
			h, name := g.elemArr(st, to.Underlying().(*types.Slice).Elem())
			arr := g.newConst("runes", "(Array Int Int)")
			g.setHeap(st, name, g.heapSort(name), app("store", h, r, arr))
		}
		g.setVal(x, app("mk-slice", r, "0", ln))
	default:
		g.vals[x] = v
	}
}

func (g *gen) needFtrunc() {
	if !g.declared["ftrunc"] {
		g.declared["ftrunc"] = true
		g.vc.Decls = append(g.vc.Decls, "(define-fun ftrunc ((x Real)) Int (ite (>= x 0.0) (to_int x) (- (to_int (- x)))))")
	}
}

// ---- range over strings / maps -----------------------------------------------------------------

func (g *gen) execRange(x *ssa.Range, st *state) {
	it := &iterInfo{rng: x, isStr: isString(x.X.Type()), x: g.val(st, x.X)}
	g.iters[x] = it
	g.vals[x] = "0"
	// position cell is kept as a pseudo heap variable so that loop havoc/merge handles it
	name := g.iterVar(x)
	g.heapSorts[name] = "Int"
	st.heap[name] = "0"
}

func (g *gen) iterVar(x *ssa.Range) string { return "IT." + x.Name() }

func (g *gen) execNext(x *ssa.Next, st *state) {
	rng, _ := x.Iter.(*ssa.Range)
	it := g.iters[rng]
	tt := x.Type().(*types.Tuple)
	if it == nil {
		g.tuples[x] = []string{g.newConst("ok", "Bool"), g.newConst("k", g.sorts.sortOf(tt.At(1).Type())), g.newConst("v", g.sorts.sortOf(tt.At(2).Type()))}
		return
	}
	name := g.iterVar(rng)
	pos := g.heapVar(st, name, "Int")
	if it.isStr {
		g.needRunes()
		ok := g.define("rng.ok", "Bool", app("<", pos, app("runeCount", it.x)))
		k := app("runeStart", it.x, pos)
		v := app("runeAt", it.x, pos)
		g.tuples[x] = []string{ok, k, v}
		np := g.define(name+"@", "Int", sIte(ok, app("+", pos, "1"), pos))
		st.heap[name] = np
		// ghost fact: the runes seen so far (unfolding of prefixRunes at this position)
		g.assume(sImp(ok, sEq(app("prefixRunes", it.x, app("+", pos, "1")), app("snoc", app("prefixRunes", it.x, pos), v))))
		return
	}
	// map iteration: order and content unconstrained
	ok := g.newConst("rng.ok", "Bool")
	kv := g.newConst("rng.k", g.sorts.sortOf(tt.At(1).Type()))
	vv := g.newConst("rng.v", g.sorts.sortOf(tt.At(2).Type()))
	g.assumeAllocated(st, vv, tt.At(2).Type())
	g.tuples[x] = []string{ok, kv, vv}
	np := g.define(name+"@", "Int", app("+", pos, "1"))
	st.heap[name] = np
	g.note("range over a map in %s: iteration order and content unconstrained", g.vc.Func)
}

func (g *gen) needRunes() {}

func (g *gen) rangePos(e *env) string {
	// the iterator of the innermost enclosing loop that has one
	var best *loopInfo
	for _, li := range g.loops {
		if li.rangeIt != nil && li.body[g.curBlock] && (best == nil || len(li.body) < len(best.body)) {
			best = li
		}
	}
	if best != nil {
		return g.heapVar(e.st, g.iterVar(best.rangeIt), "Int")
	}
	g.fail("rangepos(): no range loop here")
	return ""
}

func plusOff(off, lo string) string {
	if off == "0" {
		return lo
	}
	if lo == "0" {
		return off
	}
	return app("+", off, lo)
}

// runeFacts: for an ASCII string literal, its rune sequence is spelled out (flag `runes`).
func (g *gen) runeFacts(v ssa.Value, term string) {
	c, ok := v.(*ssa.Const)
	if !ok || c.Value == nil {
		return
	}
	lit := constString(c)
	seq := "rnil"
	for i := 0; i < len(lit); i++ {
		if lit[i] >= 0x80 {
			return
		}
		seq = app("snoc", seq, fmt.Sprint(int(lit[i])))
	}
	g.assume(sAnd(sEq(app("runesOf", term), seq), sEq(app("runeCount", term), fmt.Sprint(len(lit)))))
}

// checkFuncConversion: a concrete function converted to a named function type that has a contract must itself
// be under a (verified) contract; its contract is compared clause-free: the obligation is the existence of a
// verified contract with the same frame discipline (no modifies clause, no readonly-if weaker than the type's).
func (g *gen) checkFuncConversion(x *ssa.ChangeType) {
	nt, ok := x.Type().(*types.Named)
	if !ok {
		return
	}
	if _, isSig := nt.Underlying().(*types.Signature); !isSig {
		return
	}
	tcon := g.P.getContract("functype " + nt.Obj().Name())
	if tcon == nil || !g.opts.frames {
		return
	}
	var fn *ssa.Function
	switch f := x.X.(type) {
	case *ssa.Function:
		fn = f
	case *ssa.MakeClosure:
		fn = f.Fn.(*ssa.Function)
	}
	if fn == nil {
		fn = returnedClosure(x.X)
	}
	if fn == nil {
		// a function value of unknown origin (e.g. returned by a call): its producer is responsible
		if c, ok := x.X.(*ssa.Call); ok {
			if callee := c.Call.StaticCallee(); callee != nil {
				if pc := g.P.contractFor(callee); pc != nil && pc.flag("returns-"+nt.Obj().Name()) {
					return
				}
			}
		}
		g.oblige("closure-contract", "value converted to "+nt.Obj().Name()+" is of unknown origin", x.Pos(), "false", nil)
		return
	}
	fc := g.P.contractFor(fn)
	ok2 := fc != nil && !fc.flag("trusted") && len(fc.Modifies) == 0 && (fc.ReadonlyIf == nil || tcon.ReadonlyIf != nil)
	if fc != nil && fc.flag("synth") && fc.ReadonlyIf != nil && fc.ReadonlyIf.Text == "false" {
		ok2 = false
	}
	g.oblige("closure-contract", g.P.relName(fn)+" used as "+nt.Obj().Name()+" must have a verified contract with the type's frame", x.Pos(), boolLit(ok2), nil)
}

// closureMayWrite: can the closure (or anything it hands the variable to) write its i-th captured variable?
func (g *gen) closureMayWrite(fn *ssa.Function, i int) bool {
	if i >= len(fn.FreeVars) {
		return true
	}
	fv := fn.FreeVars[i]
	if fv.Referrers() == nil {
		return false
	}
	var derived func(v ssa.Value, depth int) bool
	derived = func(v ssa.Value, depth int) bool {
		if depth > 6 || v.Referrers() == nil {
			return depth > 6
		}
		for _, r := range *v.Referrers() {
			switch u := r.(type) {
			case *ssa.DebugRef:
			case *ssa.UnOp: // load
			case *ssa.FieldAddr:
				if derived(u, depth+1) {
					return true
				}
			case *ssa.IndexAddr:
				if derived(u, depth+1) {
					return true
				}
			case *ssa.Store:
				if u.Addr == v {
					return true
				}
				return true // the address itself is stored somewhere
			case *ssa.Call:
				callee := u.Call.StaticCallee()
				if callee == nil {
					return true
				}
				if _, isModel := models[callee.String()]; isModel {
					continue
				}
				con := g.P.contractFor(callee)
				if con == nil || con.flag("synth") || len(con.Modifies) > 0 {
					return true
				}
			case *ssa.MakeClosure:
				return true
			default:
				return true
			}
		}
		return false
	}
	return derived(fv, 0)
}

// mergeConditional: st := cond ? st : pre (for every heap variable and cell that differs).
func (g *gen) mergeConditional(st, pre *state, cond string) {
	if st.epoch != pre.epoch {
		// materialise every variable either side knows under a fresh merge epoch
		post := st.clone()
		me := g.fresh("e")
		g.epochs[me] = &epochInfo{parents: []parentLink{{post, cond}, {pre, sNot(cond)}}}
		keys := map[string]bool{}
		for k := range post.heap {
			keys[k] = true
		}
		for k := range pre.heap {
			keys[k] = true
		}
		st.epoch = me
		nh := map[string]string{}
		for k := range keys {
			srt := g.heapSorts[k]
			a, b := g.heapVar(post, k, srt), g.heapVar(pre, k, srt)
			if a == b {
				nh[k] = a
			} else {
				nh[k] = g.define(k+"@m", srt, sIte(cond, a, b))
			}
		}
		st.heap = nh
	} else {
		for k, a := range st.heap {
			b := g.heapVar(pre, k, g.heapSorts[k])
			if a != b {
				st.heap[k] = g.define(k+"@m", g.heapSorts[k], sIte(cond, a, b))
			}
		}
	}
	for a, v := range st.cells {
		if pv := g.cellValue(pre, a); pv != v {
			st.cells[a] = g.define("cell."+sanitize(a.Comment)+"@m", g.sorts.sortOf(deref(a.Type())), sIte(cond, v, pv))
		}
	}
	if st.top != pre.top {
		st.top = g.define("top@m", "Int", sIte(cond, st.top, pre.top))
	}
}

// closureEscapes: is the closure value used for anything but being called or deferred right here?
func closureEscapes(mc *ssa.MakeClosure) bool {
	refs := mc.Referrers()
	if refs == nil {
		return false
	}
	for _, r := range *refs {
		switch u := r.(type) {
		case *ssa.DebugRef:
		case *ssa.Defer:
			if u.Call.Value != ssa.Value(mc) {
				return true
			}
		case *ssa.Call:
			if u.Call.Value != ssa.Value(mc) {
				return true
			}
		default:
			return true
		}
	}
	return false
}
