package main

// Field-writer reachability: the justification of "keeps T.f" clauses on contracts of functions whose body is
// not (or cannot be) verified — interface methods and trusted dispatchers.
//
// Go is memory safe: a struct field T.f of an existing object changes only through a Store whose address is
// the FieldAddr of f on a *T (or a store of a whole T value through a *T, or through an address &x.f that
// escaped). So "calling F leaves every T.f as it was" follows when no function that F may reach contains
// such an instruction. "May reach" is an over-approximated call graph over all yq functions:
//
//   - every function or closure an instruction mentions (called or taken as a value) is a successor;
//   - an interface method call reaches the methods of every yq type that implements the interface;
//   - a call through a function value reaches every address-taken yq function with an identical signature;
//   - a call that leaves yq (a library function, an interface that a library type may implement, a function
//     value) may call back: every address-taken function whose signature names no yq type (a library cannot
//     write the type of the others down) and every method that some interface declared
//     OUTSIDE yq can name (Write, Len/Less/Swap, Error, String, MarshalYAML, ...), as long as it is defined
//     in a package the calling package can see (itself or its imports) — package cmd's cobra callbacks are
//     not handed to the libraries yqlib calls.
//
// Not covered (assumed, listed in the evidence): reflection-based calls of methods by name, unsafe, cgo.

import (
	"fmt"
	"go/types"
	"sort"
	"strings"
	"sync"

	"golang.org/x/tools/go/ssa"
	"golang.org/x/tools/go/ssa/ssautil"
)

// An edge of the reachability graph; recv is the receiver argument at a direct call (nil for a mere reference
// or a call nobody can attribute a receiver to).
type reachEdge struct {
	to   *ssa.Function
	recv ssa.Value
}

type reachGraph struct {
	mu        sync.Mutex
	edges     map[*ssa.Function][]reachEdge
	P         *Program
	all       []*ssa.Function
	addrTaken []*ssa.Function
	extCall   []*ssa.Function // methods nameable through an interface declared outside yq
	yqTypes   []types.Type    // named yq types and their pointers
	usesExt   map[*ssa.Function]bool
	writers   map[string]map[*ssa.Function]string // "T.f" -> function -> where
	imports   map[*types.Package]map[*types.Package]bool
}

var reachOnce sync.Once
var reachG *reachGraph

func (P *Program) reach() *reachGraph {
	reachOnce.Do(func() { reachG = buildReachGraph(P) })
	return reachG
}

func topFunc(f *ssa.Function) *ssa.Function {
	for f.Parent() != nil {
		f = f.Parent()
	}
	return f
}

func (P *Program) isYqFunc(f *ssa.Function) bool {
	t := topFunc(f)
	if t.Pkg != nil {
		return P.isYq(t.Pkg.Pkg.Path())
	}
	// synthetic wrappers / bound methods: by receiver or object
	if t.Object() != nil && t.Object().Pkg() != nil {
		return P.isYq(t.Object().Pkg().Path())
	}
	if t.Signature.Recv() != nil {
		return P.isYq(namedPkg(deref(t.Signature.Recv().Type())))
	}
	return false
}

func buildReachGraph(P *Program) *reachGraph {
	G := &reachGraph{P: P, edges: map[*ssa.Function][]reachEdge{}, usesExt: map[*ssa.Function]bool{}, writers: map[string]map[*ssa.Function]string{}, imports: map[*types.Package]map[*types.Package]bool{}}
	for fn := range ssautil.AllFunctions(P.prog) {
		if len(fn.Blocks) == 0 || !P.isYqFunc(fn) {
			continue
		}
		G.all = append(G.all, fn)
	}
	sort.Slice(G.all, func(i, j int) bool { return G.all[i].String() < G.all[j].String() })
	// named yq types
	for _, sp := range P.spkgs {
		if sp == nil {
			continue
		}
		for _, m := range sp.Members {
			if t, ok := m.(*ssa.Type); ok {
				G.yqTypes = append(G.yqTypes, t.Type(), types.NewPointer(t.Type()))
			}
		}
	}
	// interface method names declared outside yq
	extMethods := map[string][]*types.Func{}
	seenPkg := map[*types.Package]bool{}
	var walkPkg func(p *types.Package)
	walkPkg = func(p *types.Package) {
		if p == nil || seenPkg[p] {
			return
		}
		seenPkg[p] = true
		for _, q := range p.Imports() {
			walkPkg(q)
		}
		if P.isYq(p.Path()) {
			return
		}
		sc := p.Scope()
		for _, n := range sc.Names() {
			tn, ok := sc.Lookup(n).(*types.TypeName)
			if !ok {
				continue
			}
			if it, ok := tn.Type().Underlying().(*types.Interface); ok {
				for i := 0; i < it.NumMethods(); i++ {
					m := it.Method(i)
					extMethods[m.Name()] = append(extMethods[m.Name()], m)
				}
			}
		}
	}
	for _, sp := range P.spkgs {
		if sp != nil {
			walkPkg(sp.Pkg)
		}
	}
	// the universe's error interface
	extMethods["Error"] = append(extMethods["Error"], types.Universe.Lookup("error").Type().Underlying().(*types.Interface).Method(0))
	isExtCallable := func(fn *ssa.Function) bool {
		if fn.Signature.Recv() == nil {
			return false
		}
		for _, m := range extMethods[fn.Name()] {
			ms := m.Type().(*types.Signature)
			if types.Identical(types.NewSignatureType(nil, nil, nil, ms.Params(), ms.Results(), ms.Variadic()),
				types.NewSignatureType(nil, nil, nil, fn.Signature.Params(), fn.Signature.Results(), fn.Signature.Variadic())) {
				return true
			}
		}
		// unexported-interface tricks (reflection by name on exported methods) are out of scope
		return false
	}
	taken := map[*ssa.Function]bool{}
	for _, fn := range G.all {
		if isExtCallable(fn) {
			G.extCall = append(G.extCall, fn)
		}
		for _, b := range fn.Blocks {
			for _, in := range b.Instrs {
				var callee ssa.Value
				if ci, ok := in.(ssa.CallInstruction); ok && !ci.Common().IsInvoke() {
					callee = ci.Common().Value
				}
				for _, op := range in.Operands(nil) {
					if op == nil || *op == nil {
						continue
					}
					switch v := (*op).(type) {
					case *ssa.Function:
						if v != callee {
							taken[v] = true
						}
					case *ssa.MakeClosure:
						taken[v.Fn.(*ssa.Function)] = true
					}
				}
			}
		}
	}
	// functions referenced from package-level initialisers are found above (init functions are in G.all)
	for f := range taken {
		if len(f.Blocks) > 0 && P.isYqFunc(f) {
			G.addrTaken = append(G.addrTaken, f)
		}
	}
	sort.Slice(G.addrTaken, func(i, j int) bool { return G.addrTaken[i].String() < G.addrTaken[j].String() })
	// writers
	note := func(key string, fn *ssa.Function, where string) {
		if G.writers[key] == nil {
			G.writers[key] = map[*ssa.Function]string{}
		}
		if _, ok := G.writers[key][fn]; !ok {
			G.writers[key][fn] = where
		}
	}
	for _, fn := range G.all {
		for _, b := range fn.Blocks {
			for _, in := range b.Instrs {
				for _, op := range in.Operands(nil) {
					if op == nil || *op == nil {
						continue
					}
					gl, ok := (*op).(*ssa.Global)
					if !ok || gl.Pkg == nil || !P.isYq(gl.Pkg.Pkg.Path()) {
						continue
					}
					switch u := in.(type) {
					case *ssa.UnOp, *ssa.DebugRef:
					case *ssa.Store:
						if u.Addr != ssa.Value(gl) {
							note("var."+gl.Name(), fn, P.fset.Position(in.Pos()).String()+" (address stored)")
							note("nonnil:var."+gl.Name(), fn, P.fset.Position(in.Pos()).String()+" (address stored)")
						}
					case *ssa.FieldAddr:
						// a field of a struct-typed variable: the field writers are tracked per field (T.f)
						if _, isStruct := deref(gl.Type()).Underlying().(*types.Struct); !isStruct {
							note("var."+gl.Name(), fn, P.fset.Position(in.Pos()).String()+" (component address taken)")
						}
					default:
						if ci, isCall := in.(ssa.CallInstruction); isCall {
							if _, isStruct := deref(gl.Type()).Underlying().(*types.Struct); isStruct {
								if callee := ci.Common().StaticCallee(); callee != nil && len(callee.Blocks) > 0 && P.isYqFunc(callee) {
									// &structVar handed to a yq function: whatever it stores is a field store (T.f)
									continue
								}
							}
						}
						// &global passed on, or a component address taken: a store through it changes the variable
						note("var."+gl.Name(), fn, P.fset.Position(in.Pos()).String()+" (address taken)")
						note("nonnil:var."+gl.Name(), fn, P.fset.Position(in.Pos()).String()+" (address taken)")
					}
				}
				if ci, ok := in.(ssa.CallInstruction); ok {
					if callee := ci.Common().StaticCallee(); callee != nil && listMutators[callee.String()] {
						if len(ci.Common().Args) > 0 && !freshList(ci.Common().Args[0], 0) {
							note("list.*", fn, P.fset.Position(in.Pos()).String()+" ("+callee.Name()+" on a list this function did not create)")
						}
					}
				}
				switch x := in.(type) {
				case *ssa.FieldAddr:
					st, ok := deref(x.X.Type()).Underlying().(*types.Struct)
					if !ok {
						continue
					}
					if types.TypeString(deref(x.X.Type()), nil) == "container/list.Element" {
						for _, r := range *x.Referrers() {
							if u, ok := r.(*ssa.Store); ok && u.Addr == ssa.Value(x) {
								note("list.*", fn, P.fset.Position(u.Pos()).String()+" (stores into a list element)")
							}
						}
						continue
					}
					owner := P.relType(deref(x.X.Type()))
					key := owner + "." + st.Field(x.Field).Name()
					// stores into a struct this function has just allocated are initialisation, not mutation
					if isFreshAlloc(x.X) && fieldAddrOnlyStoredTo(x) {
						continue
					}
					if where := addrWritten(P, x, 0); where != "" {
						note(key, fn, where)
					}
				case *ssa.Store:
					if gl, ok := x.Addr.(*ssa.Global); ok {
						note("var."+gl.Name(), fn, P.fset.Position(x.Pos()).String())
						if !freshValue(x.Val, 0) {
							// for "stays non-nil" clauses only stores of possibly-nil values count
							note("nonnil:var."+gl.Name(), fn, P.fset.Position(x.Pos()).String()+" (stores a value not known to be non-nil)")
						}
					}
					// whole-struct store through a pointer
					if st, ok := deref(x.Addr.Type()).Underlying().(*types.Struct); ok {
						if rootedAtAlloc(x.Addr) {
							continue // a component of an object this function has just allocated: initialisation
						}
						owner := P.relType(deref(x.Addr.Type()))
						for i := 0; i < st.NumFields(); i++ {
							note(owner+"."+st.Field(i).Name(), fn, P.fset.Position(x.Pos()).String()+" (whole struct stored)")
						}
					}
				}
			}
		}
	}
	return G
}

// addrWritten: may something be stored through address v (a field or element address), or may the address
// travel somewhere this analysis does not follow? Loads and addresses of sub-components that are themselves
// only read do not count.
func addrWritten(P *Program, v ssa.Value, depth int) string {
	refs := v.Referrers()
	if refs == nil {
		return ""
	}
	if depth > 5 {
		return P.fset.Position(v.Pos()).String() + " (nested component address)"
	}
	for _, r := range *refs {
		switch u := r.(type) {
		case *ssa.Store:
			if u.Addr == v {
				return P.fset.Position(u.Pos()).String()
			}
			return P.fset.Position(v.Pos()).String() + " (address stored)"
		case *ssa.UnOp, *ssa.DebugRef:
		case *ssa.FieldAddr:
			if w := addrWritten(P, u, depth+1); w != "" {
				return w
			}
		case *ssa.IndexAddr:
			if w := addrWritten(P, u, depth+1); w != "" {
				return w
			}
		default:
			return P.fset.Position(v.Pos()).String() + " (address escapes)"
		}
	}
	return ""
}

// rootedAtAlloc: the address is a (nested) component of an allocation made by this function.
func rootedAtAlloc(v ssa.Value) bool {
	for i := 0; i < 6; i++ {
		switch x := v.(type) {
		case *ssa.Alloc:
			return true
		case *ssa.FieldAddr:
			v = x.X
		case *ssa.IndexAddr:
			v = x.X
		default:
			return false
		}
	}
	return false
}

func isFreshAlloc(v ssa.Value) bool {
	a, ok := v.(*ssa.Alloc)
	return ok && a != nil
}

func fieldAddrOnlyStoredTo(x *ssa.FieldAddr) bool {
	for _, r := range *x.Referrers() {
		switch u := r.(type) {
		case *ssa.Store:
			if u.Addr != x {
				return false
			}
		case *ssa.UnOp, *ssa.DebugRef:
		default:
			return false
		}
	}
	return true
}

// visible: packages whose functions a library called from pkg may call back.
func (G *reachGraph) visible(pkg *types.Package) map[*types.Package]bool {
	if pkg == nil {
		return nil
	}
	if m, ok := G.imports[pkg]; ok {
		return m
	}
	m := map[*types.Package]bool{}
	var walk func(p *types.Package)
	walk = func(p *types.Package) {
		if m[p] {
			return
		}
		m[p] = true
		for _, q := range p.Imports() {
			walk(q)
		}
	}
	walk(pkg)
	G.imports[pkg] = m
	return m
}

func funcPkg(f *ssa.Function) *types.Package {
	t := topFunc(f)
	if t.Pkg != nil {
		return t.Pkg.Pkg
	}
	if t.Object() != nil {
		return t.Object().Pkg()
	}
	if t.Signature.Recv() != nil {
		if n, ok := deref(t.Signature.Recv().Type()).(*types.Named); ok {
			return n.Obj().Pkg()
		}
	}
	return nil
}

// implementations of an interface method among yq types.
func (G *reachGraph) implementations(iface types.Type, method *types.Func) ([]*ssa.Function, bool) {
	it, ok := iface.Underlying().(*types.Interface)
	if !ok {
		return nil, true
	}
	var out []*ssa.Function
	for _, t := range G.yqTypes {
		if _, isI := t.Underlying().(*types.Interface); isI {
			continue
		}
		if !types.Implements(t, it) {
			continue
		}
		sel := G.P.prog.MethodSets.MethodSet(t).Lookup(method.Pkg(), method.Name())
		if sel == nil {
			continue
		}
		if f := G.P.prog.MethodValue(sel); f != nil {
			out = append(out, f)
		}
	}
	// may a type outside yq implement it? Only when every method is nameable outside yq: exported names and
	// no unexported method. (An interface with parameter types private to yq can still be implemented
	// outside in principle; yq hands such values only to its own constructors — assumed.)
	external := true
	for i := 0; i < it.NumMethods(); i++ {
		if !it.Method(i).Exported() {
			external = false
		}
	}
	if n, ok := iface.(*types.Named); ok && n.Obj().Pkg() != nil && G.P.isYq(n.Obj().Pkg().Path()) {
		// yq's own interfaces (Encoder, Decoder, Printer, DataTreeNavigator, ...): implemented by yq types only
		external = false
	}
	return out, external
}

func (G *reachGraph) successors(fn *ssa.Function) ([]reachEdge, bool) {
	if s, ok := G.edges[fn]; ok {
		return s, G.usesExt[fn]
	}
	var out []reachEdge
	type ek struct {
		f *ssa.Function
		r ssa.Value
	}
	seen := map[ek]bool{}
	add := func(f *ssa.Function, recv ssa.Value) {
		if f != nil && !seen[ek{f, recv}] {
			seen[ek{f, recv}] = true
			out = append(out, reachEdge{f, recv})
		}
	}
	ext := false
	for _, b := range fn.Blocks {
		for _, in := range b.Instrs {
			var direct ssa.Value
			ci, isCall := in.(ssa.CallInstruction)
			if isCall && !ci.Common().IsInvoke() {
				if _, ok := in.(*ssa.Call); ok { // go/defer keep the conservative treatment
					direct = ci.Common().Value
				}
			}
			for _, op := range in.Operands(nil) {
				if op == nil || *op == nil {
					continue
				}
				switch v := (*op).(type) {
				case *ssa.Function:
					if v == direct && v.Signature.Recv() != nil && len(ci.Common().Args) > 0 {
						add(v, ci.Common().Args[0])
					} else {
						add(v, nil)
					}
				case *ssa.MakeClosure:
					add(v.Fn.(*ssa.Function), nil)
				}
			}
			if !isCall {
				continue
			}
			c := ci.Common()
			switch {
			case c.IsInvoke():
				impls, external := G.implementations(c.Value.Type(), c.Method)
				_, plain := in.(*ssa.Call)
				for _, f := range impls {
					if plain {
						add(f, c.Value)
					} else {
						add(f, nil)
					}
				}
				if external {
					ext = true
				}
			case c.StaticCallee() != nil:
				callee := c.StaticCallee()
				if len(callee.Blocks) == 0 || !G.P.isYqFunc(callee) {
					if !isLogger(callee) {
						ext = true
					}
				}
			default:
				if _, isB := c.Value.(*ssa.Builtin); isB {
					continue
				}
				if _, isC := c.Value.(*ssa.MakeClosure); isC {
					continue
				}
				sig := c.Signature()
				for _, f := range G.addrTaken {
					if sameSig(sig, f.Signature) {
						add(f, nil)
					}
				}
				if !mentionsYqType(G.P, sig) {
					ext = true // the value may be a library function
				}
			}
		}
	}
	G.edges[fn] = out
	G.usesExt[fn] = ext
	return out, ext
}

func sameSig(a, b *types.Signature) bool {
	return types.Identical(types.NewSignatureType(nil, nil, nil, a.Params(), a.Results(), a.Variadic()),
		types.NewSignatureType(nil, nil, nil, b.Params(), b.Results(), b.Variadic()))
}

// freshValue: v denotes an object allocated by the function that computes v (or by a constructor it calls):
// it did not exist when that function was entered.
func freshValue(v ssa.Value, depth int) bool {
	if depth > 4 {
		return false
	}
	switch x := v.(type) {
	case *ssa.Alloc:
		return true
	case *ssa.MakeInterface:
		return freshValue(x.X, depth+1)
	case *ssa.ChangeInterface:
		return freshValue(x.X, depth+1)
	case *ssa.ChangeType:
		return freshValue(x.X, depth+1)
	case *ssa.Phi:
		for _, e := range x.Edges {
			if !freshValue(e, depth+1) {
				return false
			}
		}
		return true
	case *ssa.Extract:
		if c, ok := x.Tuple.(*ssa.Call); ok {
			return freshResult(c, x.Index, depth+1)
		}
	case *ssa.Call:
		return freshResult(x, 0, depth+1)
	}
	return false
}

func freshResult(c *ssa.Call, idx int, depth int) bool {
	callee := c.Call.StaticCallee()
	if callee == nil || len(callee.Blocks) == 0 {
		return false
	}
	any := false
	for _, b := range callee.Blocks {
		for _, in := range b.Instrs {
			if r, ok := in.(*ssa.Return); ok {
				if idx >= len(r.Results) {
					return false
				}
				if cst, ok := r.Results[idx].(*ssa.Const); ok && cst.IsNil() {
					continue
				}
				if !freshValue(r.Results[idx], depth+1) {
					return false
				}
				any = true
			}
		}
	}
	return any
}

// receiverOnly: every store of fn into key goes through fn's own receiver parameter.
func (G *reachGraph) receiverOnly(fn *ssa.Function, keys []string) bool {
	if fn.Signature.Recv() == nil || len(fn.Params) == 0 {
		return false
	}
	recv := fn.Params[0]
	want := map[string]bool{}
	for _, k := range keys {
		want[k] = true
	}
	for _, b := range fn.Blocks {
		for _, in := range b.Instrs {
			switch x := in.(type) {
			case *ssa.FieldAddr:
				st, ok := deref(x.X.Type()).Underlying().(*types.Struct)
				if !ok {
					continue
				}
				key := G.P.relType(deref(x.X.Type())) + "." + st.Field(x.Field).Name()
				if !want[key] {
					continue
				}
				if isFreshAlloc(x.X) && fieldAddrOnlyStoredTo(x) {
					continue
				}
				written := false
				for _, r := range *x.Referrers() {
					switch r.(type) {
					case *ssa.UnOp, *ssa.DebugRef:
					default:
						written = true
					}
				}
				if written && (x.X != ssa.Value(recv) || !fieldAddrOnlyStoredTo(x)) {
					return false
				}
			case *ssa.Store:
				if st, ok := deref(x.Addr.Type()).Underlying().(*types.Struct); ok {
					if _, isAlloc := x.Addr.(*ssa.Alloc); isAlloc {
						continue
					}
					owner := G.P.relType(deref(x.Addr.Type()))
					for i := 0; i < st.NumFields(); i++ {
						if want[owner+"."+st.Field(i).Name()] {
							return false
						}
					}
				}
			}
		}
	}
	return true
}

func mentionsYqType(P *Program, sig *types.Signature) bool {
	found := false
	var walk func(t types.Type, d int)
	walk = func(t types.Type, d int) {
		if found || d > 6 {
			return
		}
		switch x := t.(type) {
		case *types.Named:
			if x.Obj().Pkg() != nil && P.isYq(x.Obj().Pkg().Path()) {
				found = true
			}
		case *types.Pointer:
			walk(x.Elem(), d+1)
		case *types.Slice:
			walk(x.Elem(), d+1)
		case *types.Array:
			walk(x.Elem(), d+1)
		case *types.Map:
			walk(x.Key(), d+1)
			walk(x.Elem(), d+1)
		case *types.Signature:
			for i := 0; i < x.Params().Len(); i++ {
				walk(x.Params().At(i).Type(), d+1)
			}
			for i := 0; i < x.Results().Len(); i++ {
				walk(x.Results().At(i).Type(), d+1)
			}
		}
	}
	walk(sig, 0)
	return found
}

// reachWriter: is a writer of field key ("T.f"; "T.*" = any field of T) reachable from roots?
// Returns the offending chain, or "" when none is. The search runs over (function, receiver-is-fresh) states:
// a method that stores only into its own receiver, reached only with receivers allocated after the root call
// began (x := NewT(); x.M()), changes no object that existed at the root call.
func (G *reachGraph) reachWriter(roots []*ssa.Function, rootsExt bool, from *types.Package, key string) string {
	// package-level variables are looked up by bare name (two packages sharing a name are merged)
	for _, pre := range []string{"nonnil:var.", "var."} {
		if strings.HasPrefix(key, pre) {
			if rest := strings.TrimPrefix(key, pre); strings.Contains(rest, ".") {
				key = pre + rest[strings.LastIndex(rest, ".")+1:]
			}
			break
		}
	}
	writers := map[*ssa.Function]string{}
	var keys []string
	if strings.HasSuffix(key, ".*") {
		pre := strings.TrimSuffix(key, "*")
		for k, ws := range G.writers {
			if strings.HasPrefix(k, pre) && !strings.Contains(k[len(pre):], ".") {
				keys = append(keys, k)
				for f, w := range ws {
					writers[f] = k + " at " + w
				}
			}
		}
	} else {
		keys = []string{key}
		for f, w := range G.writers[key] {
			writers[f] = key + " at " + w
		}
	}
	if len(writers) == 0 {
		return ""
	}
	type node struct {
		f     *ssa.Function
		fresh bool
	}
	parent := map[node]node{}
	seen := map[node]bool{}
	var queue []node
	push := func(n node, p node) {
		if n.f == nil || seen[n] || len(n.f.Blocks) == 0 || !G.P.isYqFunc(n.f) {
			return
		}
		if n.fresh && seen[node{n.f, false}] {
			return // the weaker state is already explored
		}
		seen[n] = true
		parent[n] = p
		queue = append(queue, n)
	}
	// callbacks from library code: what a library can reach depends on the package that called it
	extDone := map[*types.Package]bool{}
	pushExt := func(p node) {
		pkg := from
		if p.f != nil {
			pkg = funcPkg(p.f)
		}
		if extDone[pkg] {
			return
		}
		extDone[pkg] = true
		vis := G.visible(pkg)
		for _, f := range G.addrTaken {
			// a library can only call a function value whose type it can write down (reflection aside)
			if (vis == nil || vis[funcPkg(f)]) && !mentionsYqType(G.P, f.Signature) {
				push(node{f, false}, p)
			}
		}
		for _, f := range G.extCall {
			if vis == nil || vis[funcPkg(f)] {
				push(node{f, false}, p)
			}
		}
	}
	for _, r := range roots {
		push(node{r, false}, node{})
	}
	if rootsExt {
		pushExt(node{})
	}
	roCache := map[*ssa.Function]bool{}
	for len(queue) > 0 {
		n := queue[0]
		queue = queue[1:]
		if w, ok := writers[n.f]; ok {
			ro, have := roCache[n.f]
			if !have {
				ro = G.receiverOnly(n.f, keys)
				roCache[n.f] = ro
			}
			if !(n.fresh && ro) {
				chain := []string{G.P.relName(n.f) + " stores " + w}
				for p := parent[n]; p.f != nil; p = parent[p] {
					chain = append([]string{G.P.relName(p.f)}, chain...)
				}
				return strings.Join(chain, " -> ")
			}
		}
		succ, ext := G.successors(n.f)
		for _, e := range succ {
			fresh := false
			if e.recv != nil {
				if freshValue(e.recv, 0) {
					fresh = true
				} else if n.fresh && len(n.f.Params) > 0 && e.recv == ssa.Value(n.f.Params[0]) {
					fresh = true // the caller's own (fresh) receiver is passed on
				}
			}
			push(node{e.to, fresh}, n)
		}
		if ext {
			pushExt(n)
		}
	}
	return ""
}

// keepsCheck: the call instr of caller reaches no writer of key. Returns "" or the chain.
func (G *reachGraph) keepsCheck(c *ssa.CallCommon, caller *ssa.Function, key string) (string, int) {
	G.mu.Lock()
	defer G.mu.Unlock()
	var roots []*ssa.Function
	ext := false
	switch {
	case c.IsInvoke():
		roots, ext = G.implementations(c.Value.Type(), c.Method)
	case c.StaticCallee() != nil:
		roots = []*ssa.Function{c.StaticCallee()}
		if len(c.StaticCallee().Blocks) == 0 || !G.P.isYqFunc(c.StaticCallee()) {
			ext = true
		}
	default:
		sig := c.Signature()
		for _, f := range G.addrTaken {
			if sameSig(sig, f.Signature) {
				roots = append(roots, f)
			}
		}
		ext = !mentionsYqType(G.P, sig)
	}
	return G.reachWriter(roots, ext, funcPkg(caller), key), len(roots)
}

func (G *reachGraph) describe() string {
	return fmt.Sprintf("%d yq functions, %d address-taken, %d callable through library interfaces", len(G.all), len(G.addrTaken), len(G.extCall))
}

var listMutators = map[string]bool{}

func init() {
	for _, m := range []string{"Init", "PushBack", "PushFront", "PushBackList", "PushFrontList", "Remove", "InsertBefore", "InsertAfter", "MoveToFront", "MoveToBack", "MoveBefore", "MoveAfter"} {
		listMutators["(*container/list.List)."+m] = true
	}
}

// freshList: the list was created by this function (list.New(), possibly through phis).
func freshList(v ssa.Value, depth int) bool {
	if depth > 4 {
		return false
	}
	switch x := v.(type) {
	case *ssa.Call:
		if callee := x.Call.StaticCallee(); callee != nil {
			if callee.String() == "container/list.New" {
				return true
			}
			if callee.String() == "(*container/list.List).Init" && len(x.Call.Args) > 0 {
				return freshList(x.Call.Args[0], depth+1)
			}
		}
		return freshValue(v, depth+1)
	case *ssa.Phi:
		for _, e := range x.Edges {
			if !freshList(e, depth+1) {
				return false
			}
		}
		return true
	case *ssa.Alloc:
		return true
	}
	return false
}
