package main

// Parser for the comment-only contract files (zz_verif_contracts.go, //go:build verif).
//
//   //@ func (sortableNodeArray).compare
//   //@   props C15 C11
//   //@   requires lhs != nil && rhs != nil
//   //@   ensures @sign {C15} sign(result) == cmpSpec(...)
//   //@   modifies node.Content, node.Content[*].Key.Value
//   //@   loop 1:
//   //@     invariant @bounds 0 <= index && index <= len(contents)
//   //@     decreases len(contents) - index
//   //@   trusted | pure | maypanic | nofunctional
//
// A clause may continue on following lines that are indented deeper than the clause keyword
// and do not start with a keyword.

import (
	"bufio"
	"fmt"
	"go/ast"
	"go/parser"
	"os"
	"regexp"
	"strings"
)

type Clause struct {
	Kind  string // requires ensures invariant decreases modifies
	Label string
	Props []string
	Text  string
	Expr  ast.Expr
	Line  int
	File  string
	Site  string // for kind "site": the called function or method name, optionally NAME#k (k-th call in source order)
}

type LoopContract struct {
	Ordinal    int
	Invariants []*Clause
	Decreases  *Clause
}

// Pred is a file-level spec predicate (macro): //@ pred name(a, b) = expr
type Pred struct {
	Name   string
	Params []string
	Expr   ast.Expr
	Text   string
}

type Contract struct {
	FuncName   string // relative name, e.g. "(*CandidateNode).UpdateFrom", "deleteFromArray", "sortByOperator$1"
	Pkg        string
	Props      []string
	Requires   []*Clause
	ReadonlyIf *Clause   // when it holds at entry the function writes no pre-existing frame-checked object; otherwise anything
	Ghosts     []string  // logical variables: universally quantified integer constants of the contract
	Private    []string  // list parameters no one else holds a reference to (checked syntactically at call sites and in the body)
	Keeps      []string  // T.f / T.*: fields no function reachable from this one stores into (checked on the call graph at each call site)
	Sites      []*Clause // assertions that must hold immediately before the named calls (//@ at NAME: assert expr)
	Always     []*Clause // must hold after every call made by the function (crash-consistency style invariants over ghost state)
	Assumes    []*Clause // assumed at entry, not checked at call sites (data-structure invariants; listed in evidence)
	Ensures    []*Clause
	Modifies   []*Clause // each with Expr = location expression
	HasMod     bool      // a modifies clause was given (possibly "\nothing")
	ModNothing bool      // an explicit `modifies \nothing`
	Loops      map[int]*LoopContract
	Lets       map[string]ast.Expr
	LetOrder   []string
	Flags      map[string]bool
	Replay     []string // replay template lines
	Line       int
	File       string
	Used       bool
}

func (c *Contract) flag(s string) bool { return c != nil && c.Flags[s] }

var clauseRe = regexp.MustCompile(`^(at|keeps|private|ghost|always|readonly-if|requires|ensures|invariant|decreases|modifies|let|props|loop|replay|pure|trusted|maypanic|nofunctional|nosafety|nopre|overlay|readonly|runes|noframe|nocallframe|noerrprop|flags|assume|check)\b`)
var labelRe = regexp.MustCompile(`^@([A-Za-z0-9_.\-]+)\s*`)
var propsRe = regexp.MustCompile(`^\{([A-Z0-9, ]+)\}\s*`)

var predRe = regexp.MustCompile(`^pred\s+([A-Za-z0-9_]+)\s*\(([^)]*)\)\s*=\s*(.*)$`)

var filePreds = map[string]*Pred{}

// fileGhosts: ghost state declared in contract files (//@ ghostvar name Sort): models of the outside world
// (was the target file replaced, what was written, ...). Only contracts read or write it.
var fileGhosts = map[string]string{}
var fileGhostTypes = map[string]string{}

func parseContractFile(path, pkg string) ([]*Contract, error) {
	f, err := os.Open(path)
	if err != nil {
		return nil, err
	}
	defer f.Close()
	var out []*Contract
	var cur *Contract
	var curLoop *LoopContract
	var pending *Clause
	var pendingLoop *LoopContract
	var pendingLet string
	var curPred *Pred
	inReplay := false
	flush := func() error {
		if pending == nil {
			return nil
		}
		cl := pending
		pending = nil
		text := strings.TrimSpace(cl.Text)
		if m := labelRe.FindStringSubmatch(text); m != nil {
			cl.Label = m[1]
			text = text[len(m[0]):]
		}
		if m := propsRe.FindStringSubmatch(text); m != nil {
			for _, p := range strings.Split(m[1], ",") {
				if p = strings.TrimSpace(p); p != "" {
					cl.Props = append(cl.Props, p)
				}
			}
			text = text[len(m[0]):]
		}
		cl.Text = text
		if cl.Kind == "modifies" {
			cur.HasMod = true
			for _, part := range splitTop(text) {
				part = strings.TrimSpace(part)
				if part == `\nothing` {
					cur.ModNothing = true
				}
				if part == "" || part == `\nothing` || part == `\fresh` {
					continue
				}
				e, err := parser.ParseExpr(strings.ReplaceAll(part, "[*]", "[STAR]"))
				if err != nil {
					return fmt.Errorf("%s:%d: modifies %q: %v", path, cl.Line, part, err)
				}
				cur.Modifies = append(cur.Modifies, &Clause{Kind: "modifies", Text: part, Expr: e, Line: cl.Line, File: path, Props: cl.Props})
			}
			return nil
		}
		e, err := parser.ParseExpr(text)
		if err != nil {
			return fmt.Errorf("%s:%d: %s %q: %v", path, cl.Line, cl.Kind, text, err)
		}
		cl.Expr = e
		switch cl.Kind {
		case "requires":
			cur.Requires = append(cur.Requires, cl)
		case "assume":
			cur.Assumes = append(cur.Assumes, cl)
		case "readonly-if":
			cur.ReadonlyIf = cl
		case "always":
			cur.Always = append(cur.Always, cl)
		case "site":
			cur.Sites = append(cur.Sites, cl)
		case "ensures":
			cur.Ensures = append(cur.Ensures, cl)
		case "invariant":
			pendingLoop.Invariants = append(pendingLoop.Invariants, cl)
		case "decreases":
			pendingLoop.Decreases = cl
		case "let":
			cur.Lets[pendingLet] = e
			cur.LetOrder = append(cur.LetOrder, pendingLet)
		}
		return nil
	}
	sc := bufio.NewScanner(f)
	sc.Buffer(make([]byte, 1<<20), 1<<20)
	ln := 0
	for sc.Scan() {
		ln++
		line := sc.Text()
		t := strings.TrimSpace(line)
		if !strings.HasPrefix(t, "//@") {
			continue
		}
		body := strings.TrimPrefix(t, "//@")
		if i := strings.Index(body, " //"); i >= 0 && !strings.Contains(body[:i], `"`) { // trailing comment
			body = body[:i]
		}
		tb := strings.TrimSpace(body)
		if tb == "" {
			continue
		}
		if strings.HasPrefix(tb, "ghostvar ") {
			f := strings.Fields(tb)
			if len(f) == 3 || len(f) == 4 {
				fileGhosts[f[1]] = f[2]
				if len(f) == 4 {
					fileGhostTypes[f[1]] = f[3] // Go-level reading of the value: "list" = *list.List
				}
			}
			continue
		}
		if strings.HasPrefix(tb, "pred ") {
			if err := flush(); err != nil {
				return nil, err
			}
			m := predRe.FindStringSubmatch(tb)
			if m == nil {
				return nil, fmt.Errorf("%s:%d: bad pred", path, ln)
			}
			pr := &Pred{Name: m[1], Text: m[3]}
			for _, x := range strings.Split(m[2], ",") {
				if x = strings.TrimSpace(x); x != "" {
					pr.Params = append(pr.Params, x)
				}
			}
			curPred = pr
			cur = nil
			filePreds[pr.Name] = pr
			continue
		}
		if curPred != nil && !strings.HasPrefix(tb, "func ") && !strings.HasPrefix(tb, "functype ") && cur == nil {
			curPred.Text += " " + tb
			continue
		}
		if strings.HasPrefix(tb, "functype ") {
			tb = "func functype " + strings.TrimSpace(tb[len("functype "):])
		}
		if strings.HasPrefix(tb, "func ") {
			curPred = nil
			if err := flush(); err != nil {
				return nil, err
			}
			cur = &Contract{FuncName: strings.TrimSpace(tb[5:]), Pkg: pkg, Loops: map[int]*LoopContract{}, Lets: map[string]ast.Expr{}, Flags: map[string]bool{}, Line: ln, File: path}
			out = append(out, cur)
			curLoop = nil
			inReplay = false
			continue
		}
		if cur == nil {
			continue
		}
		m := clauseRe.FindString(tb)
		if inReplay && m == "" {
			cur.Replay = append(cur.Replay, strings.TrimPrefix(body, "   "))
			continue
		}
		if m == "" {
			// continuation
			if pending != nil {
				pending.Text += " " + tb
				continue
			}
			return nil, fmt.Errorf("%s:%d: cannot parse contract line %q", path, ln, tb)
		}
		if err := flush(); err != nil {
			return nil, err
		}
		inReplay = false
		rest := strings.TrimSpace(tb[len(m):])
		switch m {
		case "props":
			cur.Props = strings.Fields(rest)
		case "ghost":
			cur.Ghosts = append(cur.Ghosts, strings.Fields(rest)...)
		case "private":
			cur.Private = append(cur.Private, strings.Fields(strings.ReplaceAll(rest, ",", " "))...)
		case "keeps":
			cur.Keeps = append(cur.Keeps, strings.Fields(strings.ReplaceAll(rest, ",", " "))...)
		case "loop":
			var n int
			fmt.Sscanf(strings.TrimSuffix(rest, ":"), "%d", &n)
			curLoop = &LoopContract{Ordinal: n}
			cur.Loops[n] = curLoop
		case "pure", "trusted", "maypanic", "nofunctional", "readonly", "runes", "noframe", "nocallframe", "noerrprop", "nosafety", "nopre", "overlay", "flags":
			cur.Flags[m] = true
			if rest != "" {
				for _, x := range strings.Fields(rest) {
					cur.Flags[x] = true
				}
			}
		case "replay":
			inReplay = true
			if rest != "" && rest != ":" {
				cur.Replay = append(cur.Replay, rest)
			}
		case "let":
			i := strings.Index(rest, "=")
			if i < 0 {
				return nil, fmt.Errorf("%s:%d: let needs '='", path, ln)
			}
			pendingLet = strings.TrimSpace(rest[:i])
			pending = &Clause{Kind: "let", Text: rest[i+1:], Line: ln, File: path}
		case "invariant", "decreases":
			if curLoop == nil {
				return nil, fmt.Errorf("%s:%d: %s outside loop", path, ln, m)
			}
			pendingLoop = curLoop
			pending = &Clause{Kind: m, Text: rest, Line: ln, File: path}
		case "at":
			i := strings.Index(rest, ":")
			if i < 0 || !strings.HasPrefix(strings.TrimSpace(rest[i+1:]), "assert") {
				return nil, fmt.Errorf("%s:%d: expected 'at NAME: assert expr'", path, ln)
			}
			pending = &Clause{Kind: "site", Site: strings.TrimSpace(rest[:i]), Text: strings.TrimPrefix(strings.TrimSpace(rest[i+1:]), "assert"), Line: ln, File: path}
		case "requires", "ensures", "modifies", "assume", "check", "readonly-if", "always":
			pending = &Clause{Kind: m, Text: rest, Line: ln, File: path}
		}
	}
	if err := flush(); err != nil {
		return nil, err
	}
	for _, pr := range filePreds {
		if pr.Expr == nil {
			e, err := parser.ParseExpr(pr.Text)
			if err != nil {
				return nil, fmt.Errorf("%s: pred %s: %v", path, pr.Name, err)
			}
			pr.Expr = e
		}
	}
	return out, sc.Err()
}

// splitTop splits on commas that are not nested in brackets.
func splitTop(s string) []string {
	var out []string
	d := 0
	last := 0
	for i, c := range s {
		switch c {
		case '(', '[', '{':
			d++
		case ')', ']', '}':
			d--
		case ',':
			if d == 0 {
				out = append(out, s[last:i])
				last = i + 1
			}
		}
	}
	return append(out, s[last:])
}
