package main

// Calls: builtins, library models (assumed contracts), contract calls, frames.

import (
	"fmt"
	"go/ast"
	"go/types"
	"os"
	"sort"
	"strings"

	"golang.org/x/tools/go/ssa"
)

// packages whose functions never write to memory reachable from yq objects (assumed; listed in evidence)
var pureExternalPkgs = map[string]bool{
	"fmt": true, "strconv": true, "strings": true, "errors": true, "time": true, "unicode": true, "unicode/utf8": true,
	"math": true, "math/big": true, "regexp": true, "bytes": true, "bufio": true, "io": true, "os": true, "path/filepath": true,
	"net/url": true, "encoding/base64": true, "sort": false, "container/list": true, "gopkg.in/op/go-logging.v1": true,
	"golang.org/x/text/unicode/norm": true, "io/fs": true, "path": true, "encoding/csv": true, "encoding/xml": true, "html": true,
	"github.com/fatih/color": true, "github.com/a8m/envsubst/parse": true, "github.com/a8m/envsubst": true,
	"github.com/elliotchance/orderedmap": true, "github.com/magiconair/properties": true, "github.com/alecthomas/participle/v2/lexer": true,
	"github.com/dimchansky/utfbom": true, "github.com/spf13/cobra": true, "github.com/spf13/pflag": true, "os/exec": true,
}

func isLogger(f *ssa.Function) bool {
	if f == nil || f.Signature.Recv() == nil {
		return false
	}
	return strings.Contains(f.Signature.Recv().Type().String(), "go-logging.v1.Logger")
}

func (g *gen) resultSorts(sig *types.Signature) []types.Type {
	var out []types.Type
	for i := 0; i < sig.Results().Len(); i++ {
		out = append(out, sig.Results().At(i).Type())
	}
	return out
}

func (g *gen) setResults(v ssa.Value, terms []string) {
	if v == nil {
		return
	}
	switch len(terms) {
	case 0:
	case 1:
		g.vals[v] = terms[0]
	default:
		g.tuples[v] = terms
	}
}

func (g *gen) freshResults(st *state, sig *types.Signature, what string) []string {
	var out []string
	for _, t := range g.resultSorts(sig) {
		c := g.newConst("r."+what, g.sorts.sortOf(t))
		g.assumeAllocated(st, c, t)
		out = append(out, c)
	}
	return out
}

func (g *gen) execCall(instr ssa.Instruction, c *ssa.CallCommon, v ssa.Value, st *state) {
	g.callSeq++
	// builtins
	if b, ok := c.Value.(*ssa.Builtin); ok {
		g.execBuiltin(instr, b, c, v, st)
		return
	}
	args := make([]string, len(c.Args))
	for i, a := range c.Args {
		args[i] = g.val(st, a)
	}
	g.siteAsserts(instr, c, st)
	g.countCall(c, st)
	if len(g.resultNamed) > 0 {
		if n := calledName(c); g.resultNamed[n] != nil {
			defer g.recordResult(n, v, st)
		}
	}
	sig := c.Signature()
	callee := c.StaticCallee()
	var bindings []ssa.Value
	if callee == nil && !c.IsInvoke() {
		if mc, ok := g.closures[c.Value]; ok {
			callee = mc.Fn.(*ssa.Function)
			bindings = mc.Bindings
		} else if fn := returnedClosure(c.Value); fn != nil {
			// the value is the result of calling a function whose every return is a closure of one anonymous function
			callee = fn
		}
	} else if callee != nil {
		if mc, ok := c.Value.(*ssa.MakeClosure); ok {
			bindings = mc.Bindings
		}
	}
	if callee != nil && isLogger(callee) {
		g.setResults(v, g.freshResults(st, sig, "log"))
		return
	}
	name := ""
	if callee != nil {
		name = callee.String()
	} else if c.IsInvoke() {
		name = "invoke " + types.TypeString(c.Value.Type(), nil) + "." + c.Method.Name()
	}
	// nil receiver / nil function value
	if c.IsInvoke() && g.opts.safety {
		recv := g.val(st, c.Value)
		g.obligeAssume("nil", g.exprText(c.Value)+"."+c.Method.Name()+"()", instr.Pos(), sNot(sEq(app("i.typ", recv), "0")), nil)
	}
	// library models
	if m, ok := models[name]; ok {
		res := m(g, st, c, args, instr)
		g.setResults(v, res)
		g.afterCall(instr, sig, v, st)
		return
	}
	// contracts
	if callee != nil {
		if os.Getenv("YQV_DEBUG_CALLS") != "" {
			fmt.Fprintf(os.Stderr, "call %s rel=%q\n", callee.String(), g.P.relName(callee))
		}
		if con := g.P.contractFor(callee); con != nil {
			res := g.contractCall(instr, callee, con, args, bindings, st)
			g.setResults(v, res)
			g.afterCall(instr, sig, v, st)
			return
		}
	}
	if c.IsInvoke() {
		if con := g.P.getContract("invoke " + g.P.relType(c.Value.Type()) + "." + c.Method.Name()); con != nil {
			res := g.contractCallGeneric(instr, con, c.Method.Type().(*types.Signature), append([]string{g.val(st, c.Value)}, args...), append([]types.Type{c.Value.Type()}, paramTypes(c.Method.Type().(*types.Signature))...), paramNames(c.Method.Type().(*types.Signature), "recv"), st, name)
			g.setResults(v, res)
			g.afterCall(instr, sig, v, st)
			return
		}
	}
	// dynamic call of a value whose named function type has a contract (assumed for every value of the type;
	// each concrete function converted to the type is checked against it at the conversion site)
	if callee == nil && !c.IsInvoke() {
		ftName := ""
		var fsig *types.Signature
		if nt, ok := c.Value.Type().(*types.Named); ok {
			ftName = nt.Obj().Name()
			fsig, _ = nt.Underlying().(*types.Signature)
		} else if fld := fieldOrigin(c.Value); fld != "" {
			ftName = fld
			fsig, _ = c.Value.Type().Underlying().(*types.Signature)
		}
		if ftName != "" && fsig != nil {
			if con := g.P.getContract("functype " + ftName); con != nil {
				var names []string
				for i := 0; i < fsig.Params().Len(); i++ {
					names = append(names, fsig.Params().At(i).Name())
				}
				if g.opts.safety {
					g.obligeAssume("nil", "call of "+g.exprText(c.Value), instr.Pos(), sNot(sEq(g.val(st, c.Value), "0")), nil)
				}
				res := g.contractCallGeneric(instr, con, fsig, args, paramTypes(fsig), names, st, "functype "+ftName)
				g.setResults(v, res)
				g.afterCall(instr, sig, v, st)
				return
			}
		}
	}
	// inferred summaries (frame inference)
	if callee != nil && g.P.summaries != nil {
		if s, ok := g.P.summaries[callee]; ok && s.docPure {
			g.summaryCall(instr, callee, st)
			g.setResults(v, g.freshResults(st, sig, sanitize(callee.Name())))
			g.afterCall(instr, sig, v, st)
			return
		}
	}
	// external, assumed not to touch yq memory
	pure := false
	if callee != nil && callee.Pkg != nil && pureExternalPkgs[callee.Pkg.Pkg.Path()] {
		pure = true
	} else if callee != nil && callee.Pkg == nil && callee.Signature.Recv() != nil {
		// method of an external type reached through an embedded field / wrapper
		if p := recvPkg(callee); p != "" && pureExternalPkgs[p] {
			pure = true
		}
	} else if c.IsInvoke() {
		if p := namedPkg(c.Value.Type()); (p == "" && c.Method.Name() == "Error") || pureExternalPkgs[p] {
			pure = true
		}
	}
	if callee != nil && len(callee.Blocks) == 0 && callee.Pkg != nil && !g.P.isYq(callee.Pkg.Pkg.Path()) && pureExternalPkgs[callee.Pkg.Pkg.Path()] {
		pure = true
	}
	if pure {
		g.P.usedAssumption("external " + name + " does not write yq memory; result unconstrained")
		res := g.pureExternal(st, callee, sig, args, name)
		g.setResults(v, res)
		g.afterCall(instr, sig, v, st)
		return
	}
	// unknown: sound havoc
	if g.opts.frames && !g.con.flag("nocallframe") {
		g.frameUnknownCall(instr, name, st)
	}
	g.note("call to %s without contract in %s: heap havocked", name, g.vc.Func)
	g.havocAll(st)
	g.setResults(v, g.freshResults(st, sig, "unk"))
	g.afterCall(instr, sig, v, st)
}

func recvPkg(f *ssa.Function) string {
	if r := f.Signature.Recv(); r != nil {
		return namedPkg(r.Type())
	}
	return ""
}

func namedPkg(t types.Type) string {
	t = deref(t)
	if n, ok := t.(*types.Named); ok && n.Obj().Pkg() != nil {
		return n.Obj().Pkg().Path()
	}
	return ""
}

func paramTypes(sig *types.Signature) []types.Type {
	var out []types.Type
	for i := 0; i < sig.Params().Len(); i++ {
		out = append(out, sig.Params().At(i).Type())
	}
	return out
}

func paramNames(sig *types.Signature, recv string) []string {
	out := []string{recv}
	for i := 0; i < sig.Params().Len(); i++ {
		out = append(out, sig.Params().At(i).Name())
	}
	return out
}

// pureExternal: deterministic library functions over scalar sorts become uninterpreted function symbols.
func (g *gen) pureExternal(st *state, callee *ssa.Function, sig *types.Signature, args []string, name string) []string {
	scalar := callee != nil
	var argSorts []string
	if callee != nil {
		for _, p := range callee.Params {
			s := g.sorts.sortOf(p.Type())
			if s != "Int" && s != "String" && s != "Bool" && s != "Real" {
				scalar = false
			}
			if _, isPtr := p.Type().Underlying().(*types.Pointer); isPtr {
				scalar = false
			}
			argSorts = append(argSorts, s)
		}
		if callee.Pkg != nil {
			switch callee.Pkg.Pkg.Path() {
			case "os", "time", "io", "bufio", "fmt":
				scalar = false
			}
		}
	}
	rts := g.resultSorts(sig)
	for _, t := range rts {
		switch g.sorts.sortOf(t) {
		case "Int", "String", "Bool", "Real":
			if _, isPtr := t.Underlying().(*types.Pointer); isPtr {
				scalar = false
			}
		case "Iface":
		default:
			scalar = false
		}
	}
	if !scalar || len(args) != len(argSorts) {
		return g.freshResults(st, sig, "ext")
	}
	var out []string
	for i, t := range rts {
		fn := fmt.Sprintf("ext.%s.%d", sanitize(name), i)
		g.declareFun(fn, "("+strings.Join(argSorts, " ")+") "+g.sorts.sortOf(t))
		r := app(fn, args...)
		if len(args) == 0 {
			r = fn
		}
		out = append(out, g.define("r.ext", g.sorts.sortOf(t), r))
	}
	return out
}

// afterCall: ghost bookkeeping common to all calls (error-propagation flag).
func (g *gen) afterCall(instr ssa.Instruction, sig *types.Signature, v ssa.Value, st *state) {
	if g.con != nil && len(g.con.Always) > 0 && g.opts.functional {
		e := g.entryEnv(g.entry)
		ce := e.child()
		ce.st = st
		ce.old = e
		ce.lookup = func(name string) (sval, bool) { return g.lookupCommon(ce, name) }
		what := "after " + g.exprText(v)
		if v == nil {
			what = "after a deferred call"
		}
		for _, a := range g.con.Always {
			lbl := a.Label
			if lbl == "" {
				lbl = a.Text
			}
			g.oblige("always", lbl+" "+what, instr.Pos(), g.specBool(ce, a.Expr), a.Props)
		}
	}
	if !g.opts.errprop || v == nil {
		return
	}
	n := sig.Results().Len()
	if n == 0 || types.TypeString(sig.Results().At(n-1).Type(), nil) != "error" {
		return
	}
	if c, ok := instr.(*ssa.Call); ok {
		if callee := c.Call.StaticCallee(); callee != nil {
			if nf := g.P.errHandled["*"]; nf != nil && nf[callee.String()] != "" {
				return
			}
			if h := g.P.errHandled[g.vc.Func]; h != nil && h[callee.Name()] != "" {
				g.P.usedAssumption("error of " + callee.Name() + " is deliberately recovered from in " + g.vc.Func + ": " + h[callee.Name()])
				return
			}
		}
	}
	var errT string
	if n == 1 {
		errT = g.vals[v]
		if os.Getenv("YQV_DEBUG_ERR") != "" {
			fmt.Fprintf(os.Stderr, "errprop %s: %s plain=%v\n", g.vc.Func, g.exprText(v), plainErrorUse(v, 0))
		}
		if !plainErrorUse(v, 0) {
			return
		}
	} else {
		errT = g.tuples[v][n-1]
		// find the Extract of the error component
		plain := true
		if refs := v.Referrers(); refs != nil {
			for _, r := range *refs {
				if ex, ok := r.(*ssa.Extract); ok && ex.Index == n-1 {
					plain = plainErrorUse(ex, 0)
				}
			}
		}
		if !plain {
			return
		}
	}
	cur := g.heapVar(st, "GHOST.err", "Bool")
	g.heapSorts["GHOST.err"] = "Bool"
	st.heap["GHOST.err"] = g.define("GHOST.err@", "Bool", sOr(cur, sNot(sEq(app("i.typ", errT), "0"))))
}

// ---- builtins ----------------------------------------------------------------------------------

func (g *gen) execBuiltin(instr ssa.Instruction, b *ssa.Builtin, c *ssa.CallCommon, v ssa.Value, st *state) {
	arg := func(i int) string { return g.val(st, c.Args[i]) }
	switch b.Name() {
	case "len":
		a := arg(0)
		switch c.Args[0].Type().Underlying().(type) {
		case *types.Slice:
			_, _, ln := g.sliceParts(a)
			g.vals[v] = ln
		case *types.Basic:
			g.setVal(v, app("str.len", a))
		case *types.Map:
			r := g.newConst("maplen", "Int")
			g.assert(app(">=", r, "0"))
			g.vals[v] = r
		case *types.Pointer:
			g.vals[v] = fmt.Sprint(c.Args[0].Type().Underlying().(*types.Pointer).Elem().Underlying().(*types.Array).Len())
		case *types.Array:
			g.vals[v] = fmt.Sprint(c.Args[0].Type().Underlying().(*types.Array).Len())
		default:
			r := g.newConst("len", "Int")
			g.assert(app(">=", r, "0"))
			g.vals[v] = r
		}
	case "cap":
		r := g.newConst("cap", "Int")
		if _, ok := c.Args[0].Type().Underlying().(*types.Slice); ok {
			g.assert(app(">=", r, app("s.len", arg(0))))
		} else {
			g.assert(app(">=", r, "0"))
		}
		g.vals[v] = r
	case "append":
		g.execAppend(instr, c, v, st)
	case "copy":
		dst := arg(0)
		et := c.Args[0].Type().Underlying().(*types.Slice).Elem()
		h, name := g.elemArr(st, et)
		n := g.newConst("copied", "Int")
		g.assert(sAnd(app(">=", n, "0"), app("<=", n, app("s.len", dst))))
		if g.opts.frames {
			g.frameObject(st, name, app("s.base", dst), instr, "copy into "+g.exprText(c.Args[0]))
		}
		arr := g.newConst("copyarr", "(Array Int "+g.sorts.sortOf(et)+")")
		g.setHeap(st, name, g.heapSort(name), app("store", h, app("s.base", dst), arr))
		if v != nil {
			g.vals[v] = n
		}
	case "delete":
		if mt, ok := c.Args[0].Type().Underlying().(*types.Map); ok {
			if _, present, ok := g.mapHeaps(st, mt); ok {
				m, k := arg(0), arg(1)
				ks := g.sorts.sortOf(mt.Key())
				_, pn := mapHeapNames(mt)
				g.setHeap(st, pn, "(Array Int (Array "+ks+" Bool))", app("store", present, m, app("store", app("select", present, m), k, "false")))
			}
		}
	case "print", "println":
	case "min", "max":
		a, bb := arg(0), arg(1)
		if b.Name() == "min" {
			g.setVal(v, sIte(app("<", a, bb), a, bb))
		} else {
			g.setVal(v, sIte(app(">", a, bb), a, bb))
		}
	case "recover":
		g.vals[v] = g.newConst("recovered", "Iface")
	case "ssa:wrapnilchk":
		g.vals[v] = arg(0)
	default:
		if v != nil {
			g.vals[v] = g.newConst("builtin", g.sorts.sortOf(v.Type()))
		}
	}
}

// execAppend models append as always producing a fresh backing array holding a copy.
func (g *gen) execAppend(instr ssa.Instruction, c *ssa.CallCommon, v ssa.Value, st *state) {
	s := g.val(st, c.Args[0])
	et := c.Args[0].Type().Underlying().(*types.Slice).Elem()
	es := g.sorts.sortOf(et)
	sb, so, sl := g.sliceParts(s)
	h, name := g.elemArr(st, et)
	// the appended values
	var extra []string // known individual elements
	var tb, to, tl string
	known := false
	if isString(c.Args[1].Type()) {
		// append([]byte, string...)
		r := g.newRef(st, "arr")
		ln := g.newConst("applen", "Int")
		g.assert(sEq(ln, app("+", sl, app("str.len", g.val(st, c.Args[1])))))
		arr := g.newConst("apparr", "(Array Int "+es+")")
		g.setHeap(st, name, g.heapSort(name), app("store", h, r, arr))
		g.setVal(v, app("mk-slice", r, "0", ln))
		return
	}
	if sl2, ok := c.Args[1].(*ssa.Slice); ok && sl2.Low == nil && sl2.High == nil {
		if al, ok := sl2.X.(*ssa.Alloc); ok && al.Comment == "varargs" {
			n := int(deref(al.Type()).Underlying().(*types.Array).Len())
			base := g.vals[al]
			for i := 0; i < n; i++ {
				extra = append(extra, app("select", app("select", h, base), fmt.Sprint(i)))
			}
			known = true
		}
	}
	if cst, ok := c.Args[1].(*ssa.Const); ok && cst.Value == nil {
		known = true // append(s) / append(s, nil...)
	}
	if !known {
		t := g.val(st, c.Args[1])
		tb, to, tl = g.sliceParts(t)
	}
	r := g.newRef(st, "arr")
	var newLen, arr string
	if known {
		newLen = sl
		if len(extra) > 0 {
			newLen = g.define("applen", "Int", app("+", sl, fmt.Sprint(len(extra))))
		}
		if so == "0" {
			arr = app("select", h, sb)
		} else {
			arr = g.newConst("apparr", "(Array Int "+es+")")
			g.assert(fmt.Sprintf("(forall ((j Int)) (! (=> (and (<= 0 j) (< j %s)) (= (select %s j) (select (select %s %s) (at %s j)))) :pattern ((select %s j))))", sl, arr, h, sb, so, arr))
		}
		for i, x := range extra {
			idx := sl
			if i > 0 {
				idx = app("+", sl, fmt.Sprint(i))
			}
			arr = app("store", arr, idx, x)
		}
	} else {
		newLen = g.define("applen", "Int", app("+", sl, tl))
		arr = g.newConst("apparr", "(Array Int "+es+")")
		g.assert(fmt.Sprintf("(forall ((j Int)) (! (=> (and (<= 0 j) (< j %s)) (= (select %s j) (ite (< j %s) (select (select %s %s) (at %s j)) (select (select %s %s) (at %s (- j %s)))))) :pattern ((select %s j))))",
			newLen, arr, sl, h, sb, so, h, tb, to, sl, arr))
	}
	g.setHeap(st, name, g.heapSort(name), app("store", h, r, arr))
	res := app("mk-slice", r, "0", newLen)
	g.vals[v] = res
}

// ---- contract calls -----------------------------------------------------------------------------

// modClause is an instantiated modifies clause: heap variable + membership predicate over refs.
type modClause struct {
	heap   string
	member func(r string) string
	text   string
	scalar bool // a non-array heap variable (global)
}

func (g *gen) contractCall(instr ssa.Instruction, callee *ssa.Function, con *Contract, args []string, bindings []ssa.Value, st *state) []string {
	if len(con.Private) > 0 && g.opts.functional {
		if ci, ok := instr.(ssa.CallInstruction); ok {
			for _, pn := range con.Private {
				for i, p := range callee.Params {
					if p.Name() != pn || i >= len(ci.Common().Args) {
						continue
					}
					ok := false
					switch a := ci.Common().Args[i].(type) {
					case *ssa.Call:
						ok = g.privLists[a]
					case *ssa.Parameter:
						ok = g.privParams[a]
					}
					cond := "true"
					if !ok {
						cond = "false"
					}
					g.oblige("pre", "call "+callee.Name()+" requires "+pn+" to be a list nobody else holds", instr.Pos(), cond, nil)
				}
			}
		}
	}

	var names []string
	var tys []types.Type
	for _, p := range callee.Params {
		names = append(names, p.Name())
		tys = append(tys, p.Type())
	}
	if len(callee.Params) == 0 && (callee.Signature.Params().Len() > 0 || callee.Signature.Recv() != nil) {
		// an external function (no body): names and types from the signature
		if r := callee.Signature.Recv(); r != nil {
			names = append(names, "recv")
			tys = append(tys, r.Type())
		}
		for i := 0; i < callee.Signature.Params().Len(); i++ {
			names = append(names, callee.Signature.Params().At(i).Name())
			tys = append(tys, callee.Signature.Params().At(i).Type())
		}
	}
	// a closure: its captured variables are visible to the contract under their own names, and the ones it may
	// write are unknown after the call (constrained only by the postconditions)
	g.pendingBindings = nil
	if len(bindings) == len(callee.FreeVars) {
		for i, fv := range callee.FreeVars {
			g.pendingBindings = append(g.pendingBindings, closureBinding{name: fv.Name(), val: bindings[i], mayWrite: g.closureMayWrite(callee, i)})
		}
	}
	return g.contractCallGeneric(instr, con, callee.Signature, args, tys, names, st, g.P.relName(callee))
}

type closureBinding struct {
	name     string
	val      ssa.Value
	mayWrite bool
}

func (g *gen) contractCallGeneric(instr ssa.Instruction, con *Contract, sig *types.Signature, args []string, tys []types.Type, names []string, st *state, cname string) []string {
	binds := g.pendingBindings
	g.pendingBindings = nil
	mkEnv := func(s *state) *env {
		e := &env{g: g, st: s, names: map[string]sval{}, lets: con.Lets}
		for i, n := range names {
			if i < len(args) {
				e.names[n] = g.goVal(args[i], tys[i])
			}
		}
		for _, b := range binds {
			if l, ok := g.locs[b.val]; ok {
				e.names[b.name] = g.goVal(g.load(s, l), l.vtype)
			} else if a, ok := b.val.(*ssa.Alloc); ok && a.Heap {
				et := deref(a.Type())
				if _, isS := et.Underlying().(*types.Struct); isS {
					e.names[b.name] = g.goVal(g.loadStruct(s, g.vals[a], et), et)
				}
			}
		}
		e.lookup = func(name string) (sval, bool) { return g.lookupCommon(e, name) }
		return e
	}
	preState := st.clone()
	pre := mkEnv(preState)
	pre.old = pre
	// 1. preconditions
	if g.opts.functional || g.opts.safety {
		for _, r := range con.Requires {
			if mentionsGhost(con, r.Expr) {
				continue // logical variables of the callee: not the caller's business
			}
			lbl := r.Label
			if lbl == "" {
				lbl = r.Text
			}
			g.obligeAssume("pre", "call "+cname+" requires "+lbl, instr.Pos(), g.specBool(pre, r.Expr), r.Props)
		}
	}
	// 2. frame
	mods := g.instantiateModifies(con, pre)
	if g.opts.frames && !g.con.flag("nocallframe") {
		g.frameCall(instr, cname, mods, preState)
	}
	// 3. effect
	preTop := st.top
	calleeRO := ""
	if con.ReadonlyIf != nil {
		calleeRO = g.specBool(pre, con.ReadonlyIf.Expr)
		if g.opts.frames && !g.con.flag("nocallframe") {
			// the callee may write any document node when its condition is false: the caller must be allowed to
			callerOK := "false"
			if c := g.roCond(); c != "" {
				callerOK = sNot(c)
			} else if g.con == nil || g.con.flag("noframe") {
				callerOK = "true"
			} else if !g.frameChecked("H.yqlib.CandidateNode.Value") {
				callerOK = "true"
			}
			g.oblige("frame-call", "call "+cname+" is read-only only if "+con.ReadonlyIf.Text, instr.Pos(), sOr(calleeRO, callerOK), nil)
		}
	}
	readonly := con.flag("pure") || (len(mods) == 0 && !g.exposesHeap(sig) && calleeRO == "")
	keptHeaps, staysSet := g.keptHeaps(instr, con, cname)
	var staysPre []string
	for _, h := range staysSet {
		staysPre = append(staysPre, g.heapVar(st, h, g.heapSorts[h]))
	}
	// a contract whose frame nobody checks (trusted, noframe) and that states none promises nothing about the
	// heap: everything the callee can reach may change. (Library functions are assumed not to write yq memory.)
	unknownFrame := unknownFrame(con)
	if unknownFrame {
		readonly = false
	}
	if !readonly {
		g.newEpoch(st, func(name, r string) string {
			if keptHeaps != nil && keptHeaps(name) {
				return "true"
			}
			if unknownFrame {
				if r == "" {
					return "false"
				}
				return g.privateKeep(name, r)
			}
			if r == "" {
				for _, m := range mods {
					if m.heap == name {
						return "false"
					}
				}
				return "true"
			}
			_ = calleeRO
			if con.flag("docframe-only") && !g.isDocHeap(name) {
				// an inferred summary promises nothing about lists, contexts, expression nodes — except that it
				// cannot reach what the caller never let out
				return g.privateKeep(name, r)
			}
			conds := []string{app("<=", r, preTop)}
			if name == listValHeap {
				// list elements are addressed through their list: pre-existing means the list was
				conds = []string{app("<=", app("elList", r), preTop)}
			}
			strong := false
			if calleeRO != "" && g.condFramed(name) {
				if calleeRO != "true" {
					conds = append(conds, calleeRO)
					strong = true
				}
			}
			for _, m := range mods {
				if m.heap == name {
					conds = append(conds, sNot(m.member(r)))
					strong = true
				}
			}
			if !strong {
				return "weak"
			}
			return sAnd(conds...)
		}, true)
		for a := range st.cells {
			if g.escaped[a] {
				st.cells[a] = g.newConst("cell."+sanitize(a.Comment), g.sorts.sortOf(deref(a.Type())))
			}
		}
	}
	for i, h := range staysSet {
		// a variable that is only ever assigned non-nil values stays set once it is
		now := g.heapVar(st, h, g.heapSorts[h])
		if g.heapSorts[h] == "Iface" {
			g.assume(sImp(sNot(sEq(app("i.typ", staysPre[i]), "0")), sNot(sEq(app("i.typ", now), "0"))))
		} else if g.heapSorts[h] == "Int" {
			g.assume(sImp(sNot(sEq(staysPre[i], "0")), sNot(sEq(now, "0"))))
		}
	}
	for _, m := range mods {
		if strings.HasPrefix(m.heap, "GHOST.") {
			g.heapSorts[m.heap] = fileGhosts[strings.TrimPrefix(m.heap, "GHOST.")]
			st.heap[m.heap] = g.newConst(m.heap+"@", g.heapSorts[m.heap])
		}
	}
	for _, b := range binds {
		if !b.mayWrite {
			continue
		}
		if l, ok := g.locs[b.val]; ok {
			g.store(st, l, g.newConst("captured."+b.name, g.sorts.sortOf(l.vtype)))
		}
	}
	// 4. results and postconditions
	res := g.freshResults(st, sig, sanitize(cname))
	post := mkEnv(st)
	post.old = pre
	post.freshBase = preTop
	for i, t := range g.resultSorts(sig) {
		post.results = append(post.results, g.goVal(res[i], t))
		post.resNames = append(post.resNames, sig.Results().At(i).Name())
	}
	for _, en := range con.Ensures {
		if mentionsGhost(con, en.Expr) {
			continue
		}
		g.assume(g.specBool(post, en.Expr))
	}
	if ci, ok := instr.(ssa.CallInstruction); ok {
		g.assumeNotPrivate(ci.Common(), sig, res)
	}
	return res
}

func (g *gen) isDocHeap(name string) bool {
	return strings.HasPrefix(name, "H.yqlib.CandidateNode.") || name == "E.ptr.yqlib.CandidateNode"
}

// instantiateModifies evaluates the modifies clauses of con in environment e (the callee's entry state).
func (g *gen) instantiateModifies(con *Contract, e *env) []modClause {
	var out []modClause
	for _, m := range con.Modifies {
		out = append(out, g.modClauseOf(m, e)...)
	}
	return out
}

func (g *gen) modClauseOf(m *Clause, e *env) []modClause {
	x := m.Expr
	// list contents: l.items
	if sel, ok := x.(*ast.SelectorExpr); ok && sel.Sel.Name == "items" {
		pv, star := g.objSet(e, sel.X)
		return []modClause{
			{heap: "L.len", member: pv, text: m.Text},
			{heap: "H.list.Element.Value", member: func(r string) string { return pv(app("elList", r)) }, text: m.Text},
		}
		_ = star
	}
	if sel, ok := x.(*ast.SelectorExpr); ok {
		if id, ok := sel.X.(*ast.Ident); ok && id.Name == "anynode" {
			// the field of ANY document node (used for "this function's own stores touch only attribute X")
			ot := g.P.candidateNodePtr()
			st, _ := structUnder(ot)
			for i := 0; i < st.NumFields(); i++ {
				if st.Field(i).Name() == sel.Sel.Name {
					return []modClause{{heap: heapField(deref(ot), i), member: func(string) string { return "true" }, text: m.Text}}
				}
			}
			g.specFail(x, "modifies: no field %s", sel.Sel.Name)
		}
	}
	switch n := x.(type) {
	case *ast.SelectorExpr:
		// <objset>.field
		member, _ := g.objSet(e, n.X)
		// find the struct type of the objects
		ot := g.objType(e, n.X)
		st, ok := structUnder(ot)
		if !ok {
			g.specFail(x, "modifies: %s is not a struct pointer", exprString(n.X))
		}
		for i := 0; i < st.NumFields(); i++ {
			if st.Field(i).Name() == n.Sel.Name {
				return []modClause{{heap: heapField(deref(ot), i), member: member, text: m.Text}}
			}
		}
		if n.Sel.Name == "STARFIELDS" || n.Sel.Name == "all" {
			var out []modClause
			for i := 0; i < st.NumFields(); i++ {
				out = append(out, modClause{heap: heapField(deref(ot), i), member: member, text: m.Text})
			}
			return out
		}
		g.specFail(x, "modifies: no field %s", n.Sel.Name)
	case *ast.IndexExpr:
		// <slice expr>[*]: the elements of the backing array
		if id, ok := n.Index.(*ast.Ident); ok && id.Name == "STAR" {
			if mv := g.spec(e, n.X); mv.gt != nil && isMapType(mv.gt) {
				mt := mv.gt.Underlying().(*types.Map)
				if g.mapModelled(mt) {
					vn, pn := mapHeapNames(mt)
					mem := func(r string) string { return sEq(r, mv.t) }
					return []modClause{{heap: vn, member: mem, text: m.Text}, {heap: pn, member: mem, text: m.Text}}
				}
				return nil
			}
			member, _ := g.objSetSliceBase(e, n.X)
			sv := g.objType(e, n.X)
			sl, ok := sv.Underlying().(*types.Slice)
			if !ok {
				g.specFail(x, "modifies: %s is not a slice", exprString(n.X))
			}
			return []modClause{{heap: elemHeap(sl.Elem()), member: member, text: m.Text}}
		}
	case *ast.StarExpr:
		v := g.spec(e, n.X)
		et := deref(v.gt)
		return []modClause{{heap: cellHeap(et), member: func(r string) string { return sEq(r, v.t) }, text: m.Text}}
	case *ast.Ident:
		if _, ok := fileGhosts[n.Name]; ok {
			return []modClause{{heap: "GHOST." + n.Name, scalar: true, member: func(string) string { return "true" }, text: m.Text}}
		}
		// a package-level variable
		if gl, ok := g.fn.Pkg.Members[n.Name].(*ssa.Global); ok {
			return []modClause{{heap: "G." + sanitize(gl.Pkg.Pkg.Name()+"."+gl.Name()), scalar: true, member: func(string) string { return "true" }, text: m.Text}}
		}
	}
	g.specFail(x, "unsupported modifies clause")
	return nil
}

// objSet returns a membership predicate for the set of objects denoted by expression x, which may
// contain one [STAR] index (all elements of a slice).
func (g *gen) objSet(e *env, x ast.Expr) (func(r string) string, bool) {
	if !containsStar(x) {
		v := g.spec(e, x)
		return func(r string) string { return sEq(r, v.t) }, false
	}
	ce := e.child()
	bn := fmt.Sprintf("q.star.%d", g.nextQ())
	ce.names["STAR"] = sval{t: bn, gt: tInt, sort: "Int"}
	v := g.spec(ce, x)
	ln := g.starLen(ce, x)
	return func(r string) string {
		return fmt.Sprintf("(exists ((%s Int)) (and (<= 0 %s) (< %s %s) (= %s %s)))", bn, bn, bn, ln, r, v.t)
	}, true
}

func (g *gen) objSetSliceBase(e *env, x ast.Expr) (func(r string) string, bool) {
	if !containsStar(x) {
		v := g.spec(e, x)
		return func(r string) string { return sEq(r, app("s.base", v.t)) }, false
	}
	ce := e.child()
	bn := fmt.Sprintf("q.star.%d", g.nextQ())
	ce.names["STAR"] = sval{t: bn, gt: tInt, sort: "Int"}
	v := g.spec(ce, x)
	ln := g.starLen(ce, x)
	return func(r string) string {
		return fmt.Sprintf("(exists ((%s Int)) (and (<= 0 %s) (< %s %s) (= %s (s.base %s))))", bn, bn, bn, ln, r, v.t)
	}, true
}

func containsStar(x ast.Expr) bool {
	found := false
	ast.Inspect(x, func(n ast.Node) bool {
		if id, ok := n.(*ast.Ident); ok && id.Name == "STAR" {
			found = true
		}
		return true
	})
	return found
}

// starLen: length of the slice indexed by STAR inside x.
func (g *gen) starLen(e *env, x ast.Expr) string {
	var ln string
	ast.Inspect(x, func(n ast.Node) bool {
		if ix, ok := n.(*ast.IndexExpr); ok {
			if id, ok := ix.Index.(*ast.Ident); ok && id.Name == "STAR" {
				v := g.spec(e, ix.X)
				ln = app("s.len", v.t)
				return false
			}
		}
		return true
	})
	return ln
}

func (g *gen) objType(e *env, x ast.Expr) types.Type {
	ce := e.child()
	ce.names["STAR"] = sval{t: "0", gt: tInt, sort: "Int"}
	return g.spec(ce, x).gt
}

// ---- frames --------------------------------------------------------------------------------------

// callerMods: the modifies clauses of the function under verification, instantiated at entry.
func (g *gen) callerMods() []modClause {
	if g.con == nil {
		return nil
	}
	return g.instantiateModifies(g.con, g.entryEnv(g.entry))
}

// frameChecked: is this heap variable subject to frame checking in the current mode?
func (g *gen) frameChecked(name string) bool {
	if strings.HasPrefix(name, "IT.") || strings.HasPrefix(name, "GHOST.") || strings.HasPrefix(name, "ITER.") {
		return false
	}
	if g.con != nil && g.con.flag("docframe-only") {
		return g.isDocHeap(name)
	}
	if g.con != nil && !g.con.flag("noframe") {
		return true
	}
	if g.opts.docFrame {
		return g.isDocHeap(name) || g.P.extraFrameHeap[name]
	}
	return false
}

// frameObject: obligation that writing heap variable `name` at object `obj` is permitted.
func (g *gen) frameObject(st *state, name, obj string, instr ssa.Instruction, what string) {
	if !g.opts.frames || !g.frameChecked(name) {
		return
	}
	allowed := []string{app(">", obj, g.top0)}
	if strings.HasPrefix(name, "E.") {
		allowed = append(allowed, sEq(obj, "0")) // a nil slice has no element to write
	}
	for _, m := range g.callerMods() {
		if m.heap == name {
			allowed = append(allowed, m.member(obj))
		}
	}
	if c := g.roCond(); c != "" && g.condFramed(name) {
		allowed = append(allowed, sNot(c))
	}
	g.oblige("frame", what, instr.Pos(), sOr(allowed...), nil)
}

func (g *gen) frameStore(st *state, l *loc, x *ssa.Store) {
	if !g.opts.frames {
		return
	}
	what := "store " + g.exprText(x.Addr)
	switch l.kind {
	case locField:
		g.frameObject(st, heapField(l.typ, l.field), l.base, x, what)
	case locElem:
		g.frameObject(st, elemHeap(l.typ), l.base, x, what)
	case locCell:
		g.frameObject(st, cellHeap(l.typ), l.base, x, what)
	case locGlobal:
		name := "G." + sanitize(l.global.Pkg.Pkg.Name()+"."+l.global.Name())
		if g.frameChecked(name) {
			ok := "false"
			for _, m := range g.callerMods() {
				if m.heap == name {
					ok = "true"
				}
			}
			g.oblige("frame", what, x.Pos(), ok, nil)
		}
	}
}

// frameCall: everything the callee may modify among pre-existing objects must be allowed for the caller.
func (g *gen) frameCall(instr ssa.Instruction, cname string, mods []modClause, pre *state) {
	// one obligation per modifies clause (a clause such as x.all covers many heap variables)
	var order []string
	byText := map[string][]string{}
	for _, m := range mods {
		if !g.frameChecked(m.heap) {
			continue
		}
		var cond string
		if m.scalar {
			cond = "false"
			for _, cm := range g.callerMods() {
				if cm.heap == m.heap {
					cond = "true"
				}
			}
		} else {
			sk := g.newConst("sk.obj", "Int")
			allowed := []string{app(">", sk, g.top0), sEq(sk, "0")}
			if m.heap == listValHeap {
				// the elements of a list allocated by this function are as fresh as the list
				allowed = append(allowed, app(">", app("elList", sk), g.top0))
			}
			for _, cm := range g.callerMods() {
				if cm.heap == m.heap {
					allowed = append(allowed, cm.member(sk))
				}
			}
			if c := g.roCond(); c != "" && g.condFramed(m.heap) {
				allowed = append(allowed, sNot(c))
			}
			cond = sImp(m.member(sk), sOr(allowed...))
		}
		if _, ok := byText[m.text]; !ok {
			order = append(order, m.text)
		}
		byText[m.text] = append(byText[m.text], cond)
	}
	for _, t := range order {
		g.oblige("frame-call", "call "+cname+" modifies "+t, instr.Pos(), sAnd(byText[t]...), nil)
	}
}

func (g *gen) frameUnknownCall(instr ssa.Instruction, name string, st *state) {
	g.oblige("frame-call", "call "+name+" has no frame contract", instr.Pos(), "false", nil)
}

// summaryCall: the callee has an inferred summary "writes no pre-existing document-heap object".
func (g *gen) summaryCall(instr ssa.Instruction, callee *ssa.Function, st *state) {
	_ = st.top
	g.newEpoch(st, func(name, r string) string {
		if g.isDocHeap(name) || g.P.extraFrameHeap[name] {
			if r == "" {
				return "true"
			}
			return "weak"
		}
		return g.privateKeep(name, r)
	}, true)
	for a := range st.cells {
		if g.escaped[a] {
			st.cells[a] = g.newConst("cell."+sanitize(a.Comment), g.sorts.sortOf(deref(a.Type())))
		}
	}
}

// callEffects: syntactic effect summary of a call, for loop havoc.
func (g *gen) callEffects(c *ssa.CallCommon, ef *effects) {
	if len(g.counted) > 0 {
		if n := calledName(c); g.counted[n] {
			ef.strong["GHOST.calls."+n] = true
		}
	}
	if len(g.resultNamed) > 0 {
		if n := calledName(c); g.resultNamed[n] != nil {
			ef.strong["GHOST.result."+n] = true
		}
	}
	if b, ok := c.Value.(*ssa.Builtin); ok {
		switch b.Name() {
		case "append":
			ef.allocates = true
		case "copy":
			ef.strong[elemHeap(c.Args[0].Type().Underlying().(*types.Slice).Elem())] = true
		}
		return
	}
	callee := c.StaticCallee()
	if callee == nil && !c.IsInvoke() {
		if mc, ok := g.closures[c.Value]; ok {
			callee = mc.Fn.(*ssa.Function)
		} else if mc, ok := c.Value.(*ssa.MakeClosure); ok {
			callee = mc.Fn.(*ssa.Function)
		}
	}
	if callee != nil && isLogger(callee) {
		return
	}
	name := ""
	if callee != nil {
		name = callee.String()
	} else if c.IsInvoke() {
		name = "invoke " + types.TypeString(c.Value.Type(), nil) + "." + c.Method.Name()
	}
	if me, ok := modelEffects[name]; ok {
		for _, s := range me.strong {
			ef.strong[s] = true
		}
		if me.allocates {
			ef.allocates = true
		}
		if me.nonDoc {
			ef.allNonDoc = true
		}
		if g.opts.errprop {
			ef.strong["GHOST.err"] = true
		}
		return
	}
	if _, ok := models[name]; ok {
		ef.allocates = true
		if g.opts.errprop {
			ef.strong["GHOST.err"] = true
		}
		return
	}
	if g.opts.errprop {
		ef.strong["GHOST.err"] = true
	}
	var con *Contract
	if callee != nil {
		con = g.P.contractFor(callee)
	} else if c.IsInvoke() {
		con = g.P.getContract("invoke " + g.P.relType(c.Value.Type()) + "." + c.Method.Name())
	}
	if con != nil {
		ef.allocates = true
		if con.flag("pure") {
			return
		}
		if unknownFrame(con) {
			ef.all = true
			ef.unknown = append(ef.unknown, con)
		}
		for _, m := range con.Modifies {
			for _, h := range g.modHeapNames(m, callee) {
				ef.strong[h] = true
			}
		}
		if con.ReadonlyIf != nil {
			for _, h := range g.docHeapNames() {
				ef.strong[h] = true
			}
		}
		if con.flag("docframe-only") {
			ef.allNonDoc = true
		}
		return
	}
	if callee != nil && g.P.summaries != nil {
		if s, ok := g.P.summaries[callee]; ok && s.docPure {
			ef.all, ef.hardAll = true, true // only the doc heap is preserved; handled by newEpoch in summaryCall. Conservative here.
			return
		}
	}
	pure := false
	if callee != nil && callee.Pkg != nil && pureExternalPkgs[callee.Pkg.Pkg.Path()] {
		pure = true
	} else if callee != nil && callee.Pkg == nil {
		if p := recvPkg(callee); p != "" && pureExternalPkgs[p] {
			pure = true
		}
	} else if c.IsInvoke() {
		if p := namedPkg(c.Value.Type()); (p == "" && c.Method.Name() == "Error") || pureExternalPkgs[p] {
			pure = true
		}
	}
	if pure {
		ef.allocates = true
		return
	}
	ef.all, ef.hardAll = true, true
}

// modHeapNames: heap variables named by a modifies clause (type-level, no instantiation).
func (g *gen) modHeapNames(m *Clause, callee *ssa.Function) []string {
	// evaluate in a throw-away environment where parameters are dummy constants of the right type
	e := &env{g: g, st: g.entry, names: map[string]sval{}}
	if callee != nil {
		for _, p := range callee.Params {
			e.names[p.Name()] = sval{t: g.sorts.zero(p.Type()), gt: p.Type(), sort: g.sorts.sortOf(p.Type())}
		}
		if con := g.P.contractFor(callee); con != nil {
			e.lets = con.Lets
		}
	}
	e.lookup = func(name string) (sval, bool) { return g.lookupCommon(e, name) }
	e.old = e
	var out []string
	for _, mc := range g.modClauseOf(m, e) {
		out = append(out, mc.heap)
	}
	sort.Strings(out)
	return out
}

// ---- return --------------------------------------------------------------------------------------

func (g *gen) execReturn(x *ssa.Return, st *state) {
	e := &env{g: g, st: st, names: map[string]sval{}}
	if g.con != nil {
		e.lets = g.con.Lets
	}
	ent := g.entryEnv(g.entry)
	for k, v := range ent.names {
		e.names[k] = v
	}
	e.lookup = func(name string) (sval, bool) { return g.lookupCommon(e, name) }
	e.old = ent
	sig := g.fn.Signature
	for i, r := range x.Results {
		e.results = append(e.results, g.goVal(g.val(st, r), sig.Results().At(i).Type()))
		e.resNames = append(e.resNames, sig.Results().At(i).Name())
	}
	retSuffix := ""
	if len(x.Results) > 0 {
		var rs []string
		for _, r := range x.Results {
			rs = append(rs, g.exprText(r))
		}
		retSuffix = " @return " + strings.Join(rs, ", ") + g.retTag
	}
	if g.con != nil && g.opts.functional && !g.con.flag("trusted") {
		for i, en := range g.con.Ensures {
			lbl := en.Label
			if lbl == "" {
				lbl = fmt.Sprintf("%d:%s", i+1, en.Text)
			}
			g.oblige("post", lbl+retSuffix, x.Pos(), g.specBool(e, en.Expr), en.Props)
		}
	}
	if g.con != nil && g.opts.functional && !g.con.flag("trusted") {
		// "at return: assert expr": like ensures, but stated over the function's locals as they are at the
		// return (never used at call sites)
		for _, s := range g.con.Sites {
			if s.Site != "return" {
				continue
			}
			pe := g.pointEnv(x.Block(), st, func(p *ssa.Phi) string { return g.vals[p] })
			g.siteInstr = x
			pe.results, pe.resNames = e.results, e.resNames
			lbl := s.Label
			if lbl == "" {
				lbl = s.Text
			}
			cond := g.specBool(pe, s.Expr)
			g.siteInstr = nil
			g.oblige("site", "at return/"+lbl+retSuffix, x.Pos(), cond, s.Props)
		}
	}
	if g.opts.errprop && !g.con.flag("noerrprop") {
		n := sig.Results().Len()
		if n > 0 && types.TypeString(sig.Results().At(n-1).Type(), nil) == "error" {
			flag := g.heapVar(st, "GHOST.err", "Bool")
			errT := e.results[n-1].t
			g.oblige("errprop", "callee error reaches result", x.Pos(), sImp(flag, sNot(sEq(app("i.typ", errT), "0"))), nil)
		}
	}
	// reachability cover for this return
	o := g.oblige("cover", "return reachable", x.Pos(), "false", nil)
	o.Cover = true
}

// exposesHeap: can a result of this signature give the caller access to objects the callee allocated
// (pointers to yq structs, slices, maps, lists, non-error interfaces)? If not, and the callee modifies
// nothing, the caller's heap is unchanged as far as the caller can observe.
func (g *gen) exposesHeap(sig *types.Signature) bool {
	seen := map[types.Type]bool{}
	var exp func(t types.Type) bool
	exp = func(t types.Type) bool {
		if seen[t] {
			return false
		}
		seen[t] = true
		switch u := t.Underlying().(type) {
		case *types.Pointer:
			if p := namedPkg(t); p != "" && !g.P.isYq(p) && p != "container/list" {
				return false
			}
			return true
		case *types.Slice, *types.Map, *types.Chan, *types.Signature:
			return true
		case *types.Interface:
			return types.TypeString(t, nil) != "error"
		case *types.Struct:
			if p := namedPkg(t); p != "" && !g.P.isYq(p) {
				return false
			}
			for i := 0; i < u.NumFields(); i++ {
				if exp(u.Field(i).Type()) {
					return true
				}
			}
		case *types.Array:
			return exp(u.Elem())
		}
		return false
	}
	for i := 0; i < sig.Results().Len(); i++ {
		if exp(sig.Results().At(i).Type()) {
			return true
		}
	}
	return false
}

func mentionsGhost(con *Contract, x ast.Expr) bool {
	if len(con.Ghosts) == 0 {
		return false
	}
	found := false
	var visit func(n ast.Node) bool
	seenLets := map[string]bool{}
	visit = func(n ast.Node) bool {
		if id, ok := n.(*ast.Ident); ok {
			for _, gname := range con.Ghosts {
				if id.Name == gname {
					found = true
				}
			}
			if le, ok := con.Lets[id.Name]; ok && !seenLets[id.Name] {
				seenLets[id.Name] = true
				ast.Inspect(le, visit)
			}
		}
		return true
	}
	ast.Inspect(x, visit)
	return found
}

// roCond: the function's readonly-if condition evaluated at entry ("" when there is none).
func (g *gen) roCond() string {
	if g.con == nil || g.con.ReadonlyIf == nil {
		return ""
	}
	if g.roCondTerm == "" {
		g.roCondTerm = g.specBool(g.entryEnv(g.entry), g.con.ReadonlyIf.Expr)
	}
	return g.roCondTerm
}

// condFramed: heap variables governed by readonly-if (the document heap); everything else is framed unconditionally.
func (g *gen) condFramed(name string) bool { return g.isDocHeap(name) }

func (g *gen) docHeapNames() []string {
	t := deref(g.P.candidateNodePtr())
	st := t.Underlying().(*types.Struct)
	var out []string
	for i := 0; i < st.NumFields(); i++ {
		out = append(out, heapField(t, i))
	}
	return append(out, elemHeap(g.P.candidateNodePtr()))
}

// returnedClosure: v is the result of a static call to a function whose returns are all closures of the same
// anonymous function (e.g. compare(prefs), isEquals(flip)); that anonymous function is what gets called.
func returnedClosure(v ssa.Value) *ssa.Function {
	call, ok := v.(*ssa.Call)
	if !ok {
		return nil
	}
	f := call.Call.StaticCallee()
	if f == nil || len(f.Blocks) == 0 {
		return nil
	}
	var found *ssa.Function
	for _, b := range f.Blocks {
		if ret, ok := b.Instrs[len(b.Instrs)-1].(*ssa.Return); ok {
			if len(ret.Results) != 1 {
				return nil
			}
			r := ret.Results[0]
			if ct, ok := r.(*ssa.ChangeType); ok {
				r = ct.X
			}
			mc, ok := r.(*ssa.MakeClosure)
			if !ok {
				if fn, ok := r.(*ssa.Function); ok {
					if found != nil && found != fn {
						return nil
					}
					found = fn
					continue
				}
				return nil
			}
			fn := mc.Fn.(*ssa.Function)
			if found != nil && found != fn {
				return nil
			}
			found = fn
		}
	}
	return found
}

// fieldOrigin: v is loaded from a struct field holding a function; returns "Struct.Field".
func fieldOrigin(v ssa.Value) string {
	switch x := v.(type) {
	case *ssa.UnOp:
		if fa, ok := x.X.(*ssa.FieldAddr); ok {
			if st, ok := structUnder(fa.X.Type()); ok {
				if n, ok := deref(fa.X.Type()).(*types.Named); ok {
					return n.Obj().Name() + "." + st.Field(fa.Field).Name()
				}
			}
		}
	case *ssa.Field:
		if st, ok := structUnder(x.X.Type()); ok {
			if n, ok := x.X.Type().(*types.Named); ok {
				return n.Obj().Name() + "." + st.Field(x.Field).Name()
			}
		}
	}
	return ""
}

// plainErrorUse: the error value is only ever tested against nil (in branch conditions) or returned — it is
// not inspected (errors.Is/As, comparison with a sentinel), wrapped, stored or otherwise handled. Only such
// errors are subject to the propagation obligation: a deliberately handled error (io.EOF, "try the other
// format") is not a swallowed one.
func plainErrorUse(v ssa.Value, depth int) bool {
	refs := v.Referrers()
	if refs == nil || depth > 4 {
		return depth <= 4
	}
	for _, r := range *refs {
		switch u := r.(type) {
		case *ssa.DebugRef, *ssa.Return:
		case *ssa.BinOp:
			other := u.Y
			if other == v {
				other = u.X
			}
			c, isConst := other.(*ssa.Const)
			if !isConst || c.Value != nil {
				return false // compared with a sentinel
			}
			// the comparison must only steer control flow
			if br := u.Referrers(); br != nil {
				for _, x := range *br {
					switch x.(type) {
					case *ssa.If, *ssa.DebugRef:
					default:
						return false
					}
				}
			}
		case *ssa.Phi:
			if !plainErrorUse(u, depth+1) {
				return false
			}
		case *ssa.Store:
			// stored into a named result / local error variable: still plain if that variable is only returned or tested
			if u.Val != v {
				return false
			}
			if _, ok := u.Addr.(*ssa.Alloc); !ok {
				return false
			}
		case *ssa.MakeInterface:
			// handed to a logger and nothing else: writing an error to the debug log does not handle it
			if !onlyLogged(u) {
				return false
			}
		case *ssa.ChangeInterface:
			if !onlyLogged(u) {
				return false
			}
		default:
			return false
		}
	}
	return true
}

// onlyLogged: the interface value is only stored into the variadic argument array of logger calls.
func onlyLogged(mi ssa.Value) bool {
	refs := mi.Referrers()
	if refs == nil {
		return false
	}
	for _, r := range *refs {
		switch u := r.(type) {
		case *ssa.DebugRef:
		case *ssa.Store:
			ia, ok := u.Addr.(*ssa.IndexAddr)
			if !ok || u.Val != mi {
				return false
			}
			al, ok := ia.X.(*ssa.Alloc)
			if !ok || al.Comment != "varargs" {
				return false
			}
			// every use of the array: element addresses and one slice handed to a logger
			for _, ar := range *al.Referrers() {
				switch x := ar.(type) {
				case *ssa.IndexAddr, *ssa.DebugRef:
				case *ssa.Slice:
					for _, sr := range *x.Referrers() {
						ci, ok := sr.(ssa.CallInstruction)
						if !ok {
							return false
						}
						callee := ci.Common().StaticCallee()
						if callee == nil || !isLogger(callee) {
							return false
						}
					}
				default:
					return false
				}
			}
		default:
			return false
		}
	}
	return true
}

// keptHeaps: the heaps a contract's "keeps" clauses preserve across this call; each clause is an obligation
// discharged on the call graph (no reachable function stores into the field).
func (g *gen) keptHeaps(instr ssa.Instruction, con *Contract, cname string) (func(string) bool, []string) {
	if con == nil || len(con.Keeps) == 0 {
		return nil, nil
	}
	ci, ok := instr.(ssa.CallInstruction)
	if !ok {
		return nil, nil
	}
	G := g.P.reach()
	var exact, prefixes, stays []string
	for _, k := range con.Keeps {
		chain, nroots := G.keepsCheck(ci.Common(), g.fn, k)
		cond := "true"
		if chain != "" || nroots == 0 && !ci.Common().IsInvoke() && ci.Common().StaticCallee() == nil {
			cond = "false"
		}
		what := " leaves " + k + " alone"
		if strings.HasPrefix(k, "nonnil:") {
			what = " never clears " + strings.TrimPrefix(k, "nonnil:")
		}
		o := g.oblige("keeps", cname+what, instr.Pos(), cond, nil)
		o.Detail = "call graph: " + G.describe() + fmt.Sprintf("; %d root(s)", nroots)
		if chain != "" {
			o.Detail += "; a writer is reachable: " + chain
		}
		if cond == "false" {
			continue
		}
		switch {
		case strings.HasPrefix(k, "nonnil:var."):
			h := globalHeapOf(con, strings.TrimPrefix(k, "nonnil:var."))
			if g.heapSorts[h] != "" {
				stays = append(stays, h)
			}
		case k == "list.*":
			exact = append(exact, listLenHeap, listValHeap)
		case strings.HasPrefix(k, "var."):
			exact = append(exact, globalHeapOf(con, strings.TrimPrefix(k, "var.")))
		case strings.HasSuffix(k, ".*"):
			prefixes = append(prefixes, "H.yqlib."+strings.TrimSuffix(k, "*"))
		default:
			exact = append(exact, "H.yqlib."+k)
		}
	}
	return func(name string) bool {
		for _, e := range exact {
			if name == e {
				return true
			}
		}
		for _, p := range prefixes {
			if strings.HasPrefix(name, p) && !strings.Contains(name[len(p):], ".") {
				return true
			}
		}
		return false
	}, stays
}

// globalHeapOf: the heap variable of package-level variable name as written in a keeps clause of con:
// "name" is a variable of the package whose contract file holds con, "pkg.name" one of another yq package.
func globalHeapOf(con *Contract, name string) string {
	if i := strings.Index(name, "."); i >= 0 {
		return "G." + sanitize(name)
	}
	pkg := con.Pkg
	if i := strings.LastIndex(pkg, "/"); i >= 0 {
		pkg = pkg[i+1:]
	}
	return "G." + sanitize(pkg+"."+name)
}
