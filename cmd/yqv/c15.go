package main

// C15, stability: "sort / sort_by keep equal elements in input order". The comparator's contract says nothing
// about what happens to elements that compare equal; that is the sorting routine's business. The model of
// sort.Stable is "a stable sort with respect to Less" (assumed, library). What is checked here, syntactically
// over the real code: sortByOperator hands its array to sort.Stable, and no yq function calls one of the
// library's unstable sorts (sort.Sort, sort.Slice, slices.Sort*, ...) at all — sort.Strings on map keys
// (sort_keys) orders distinct strings, where stability is vacuous.

import (
	"fmt"
	"sort"
	"strings"
	"time"

	"golang.org/x/tools/go/ssa"
	"golang.org/x/tools/go/ssa/ssautil"
)

func c15Stability(P *Program, tier string) []extraResult {
	t0 := time.Now()
	unstable := map[string]bool{"sort.Sort": true, "sort.Slice": true, "slices.Sort": true, "slices.SortFunc": true}
	var offenders []string
	callsStable := false
	for fn := range ssautil.AllFunctions(P.prog) {
		if len(fn.Blocks) == 0 || !P.isYqFunc(fn) {
			continue
		}
		for _, b := range fn.Blocks {
			for _, in := range b.Instrs {
				ci, ok := in.(ssa.CallInstruction)
				if !ok {
					continue
				}
				callee := ci.Common().StaticCallee()
				if callee == nil {
					continue
				}
				name := callee.String()
				if i := strings.Index(name, "["); i >= 0 {
					name = name[:i] // generic instantiation
				}
				if unstable[name] {
					offenders = append(offenders, fmt.Sprintf("%s calls %s at %s", P.relName(fn), name, P.fset.Position(in.Pos())))
				}
				if name == "sort.Stable" && P.relName(topFunc(fn)) == "sortByOperator" {
					callsStable = true
				}
			}
		}
	}
	sort.Strings(offenders)
	var out []extraResult
	out = append(out, extraResult{Name: "stability/sortByOperator-uses-the-stable-sort", Kind: "table", OK: callsStable,
		Detail: "sortByOperator must hand its array to sort.Stable (assumed: a stable sort with respect to Less)", Ms: time.Since(t0).Milliseconds()})
	d := "no yq function calls sort.Sort, sort.Slice or slices.Sort*"
	if len(offenders) > 0 {
		d = "unstable library sorts are called: " + strings.Join(offenders, "; ")
	}
	out = append(out, extraResult{Name: "stability/no-unstable-library-sort", Kind: "table", OK: len(offenders) == 0, Detail: d, Ms: time.Since(t0).Milliseconds()})
	return out
}

func init() {
	extraChecks["C15"] = append(extraChecks["C15"], c15Stability)
}
