package main

// Verification-condition generator: go/ssa function -> passive-form SMT definitions + obligations.

import (
	"fmt"
	"go/token"
	"go/types"
	"math/big"
	"os"
	"regexp"
	"sort"
	"strings"

	"golang.org/x/tools/go/ssa"
)

type Obligation struct {
	Name     string
	Kind     string // index slice nil typeassert panic div makeslice pre post inv-entry inv-preserved decreases frame frame-call errprop cover ...
	Func     string
	Pos      token.Position
	Guard    string
	Cond     string
	Extra    []string // extra declarations/asserts for this obligation only (e.g. skolem constants)
	Props    []string
	Expr     string // source text
	Cover    bool   // a cover query: must be SAT
	Detail   string // how a non-SMT obligation (call-graph check) was decided
	Models   []namedTerm
	vc       *VC
	nAsserts int
}

type namedTerm struct{ Name, Term string }

type VC struct {
	Func           string
	Decls          []string
	Asserts        []string
	Obls           []*Obligation
	Sorts          *sortReg
	Notes          []string // over-approximations applied (reported in evidence)
	Replay         []replayTerm
	ReplayTemplate string
	Pkg            string
	Terms          int
}

// ---- state -------------------------------------------------------------------------------------

type state struct {
	heap  map[string]string     // heap var -> current SMT constant
	cells map[*ssa.Alloc]string // non-escaping local cells
	epoch string
	top   string // allocation high-water mark
}

func (s *state) clone() *state {
	n := &state{heap: make(map[string]string, len(s.heap)), cells: make(map[*ssa.Alloc]string, len(s.cells)), epoch: s.epoch, top: s.top}
	for k, v := range s.heap {
		n.heap[k] = v
	}
	for k, v := range s.cells {
		n.cells[k] = v
	}
	return n
}

// ---- locations ---------------------------------------------------------------------------------

type locKind int

const (
	locField  locKind = iota // heap field of a struct object: base ref + field (+ nested path)
	locElem                  // element of a backing array
	locLocal                 // non-escaping local cell (+ path)
	locGlobal                // package-level variable (+ path)
	locCell                  // generic pointer to a non-struct value
)

type loc struct {
	kind   locKind
	base   string     // ref term (field, elem: array base, cell)
	idx    string     // elem: absolute index into backing array
	typ    types.Type // field: the struct type that owns the field; elem/cell: element type
	field  int
	alloc  *ssa.Alloc
	global *ssa.Global
	path   []pathStep // nested selections inside the stored value
	vtype  types.Type // type of the value at this location
}

type pathStep struct {
	field int    // struct field index, or -1 for array index
	idx   string // array index term
	st    types.Type
}

// ---- generator ---------------------------------------------------------------------------------

type loopInfo struct {
	header   *ssa.BasicBlock
	ordinal  int
	body     map[*ssa.BasicBlock]bool
	con      *LoopContract
	phiTerms map[*ssa.Phi]string
	hstate   *state // state right after havoc at the header
	variant0 string
	autoInv  []autoInv
	rangeIt  *ssa.Range
	entryTop string
}

type autoInv struct {
	name string
	mk   func(e *env) string
}

type gen struct {
	P               *Program
	fn              *ssa.Function
	con             *Contract
	vc              *VC
	sorts           *sortReg
	n               int
	vals            map[ssa.Value]string
	locs            map[ssa.Value]*loc
	tuples          map[ssa.Value][]string
	guard           map[*ssa.BasicBlock]string
	exit            map[*ssa.BasicBlock]*state
	edge            map[[2]*ssa.BasicBlock]string
	loops           map[*ssa.BasicBlock]*loopInfo
	back            map[[2]*ssa.BasicBlock]bool
	entry           *state
	declared        map[string]bool
	zeroOff         map[ssa.Value]bool
	iters           map[*ssa.Range]*iterInfo
	closures        map[ssa.Value]*ssa.MakeClosure
	defers          []*ssa.Defer
	oblNames        map[string]int
	top0            string
	errFlag         string // ghost: some callee returned a non-nil error that has not been handled
	opts            genOpts
	params          map[string]ssa.Value
	curBlock        *ssa.BasicBlock
	curGuard        string
	escaped         map[*ssa.Alloc]bool
	heapSorts       map[string]string
	heapKinds       map[string]string
	epochVars       map[string]string
	epochs          map[string]*epochInfo
	callSeq         int
	privParams      map[*ssa.Parameter]bool // list parameters the contract declares private (and the body treats so)
	privViolations  []string
	privLists       map[*ssa.Call]bool      // lists made by list.New() that never leave this function's hands
	capturedType    map[string]types.Type   // what each captured variable (by its reference term) holds
	retTag          string                  // appended to the names of the obligations of the return being executed
	counted         map[string]bool         // call names the contract counts with calls(NAME)
	resultNamed     map[string]types.Type   // call names whose latest (first) result the contract names with resultOf(NAME)
	siteInstr       ssa.Instruction         // the call a site assertion is being evaluated at
	siteOrd         map[ssa.Instruction]int // ordinal of each call among the calls to the same name, in source order
	roCondTerm      string
	pendingBindings []closureBinding
	captured        []string            // refs of heap cells captured by closures made in this function (any call may run them)
	private         map[*ssa.Alloc]bool // heap allocations of this function that unknown code can never reach
	ghostCalls      []ghostCall
}

type ghostCall struct {
	name  string
	guard string
	args  []string
	seq   int
}

type iterInfo struct {
	rng   *ssa.Range
	cell  string // name prefix of position cell; current value kept in posOf
	isStr bool
	x     string
}

type genOpts struct {
	safety            bool // generate panic-freedom obligations
	functional        bool // pre/post/invariants
	frames            bool // frame obligations on stores and calls
	docFrame          bool // implicit "modifies \nothing on the document heap" for functions without a modifies clause
	errprop           bool
	assumeTypeAsserts bool
}

func (g *gen) fresh(prefix string) string {
	g.n++
	return fmt.Sprintf("%s!%d", prefix, g.n)
}

func (g *gen) declare(name, sort string) {
	if g.declared[name] {
		return
	}
	g.declared[name] = true
	g.vc.Decls = append(g.vc.Decls, fmt.Sprintf("(declare-const %s %s)", name, sort))
}

func (g *gen) declareFun(name, sig string) {
	if g.declared[name] {
		return
	}
	g.declared[name] = true
	g.vc.Decls = append(g.vc.Decls, fmt.Sprintf("(declare-fun %s %s)", name, sig))
}

func (g *gen) newConst(prefix, sort string) string {
	n := g.fresh(prefix)
	g.declare(n, sort)
	return n
}

func (g *gen) assert(f string) {
	if f == "true" {
		return
	}
	g.vc.Asserts = append(g.vc.Asserts, f)
	g.vc.Terms += strings.Count(f, "(") + 1
}

// assume adds an assumption that holds whenever the current block is reached.
func (g *gen) assume(f string) { g.assert(sImp(g.curGuard, f)) }

func (g *gen) define(prefix, sort, term string) string {
	c := g.newConst(prefix, sort)
	g.assert(sEq(c, term))
	return c
}

func (g *gen) note(format string, a ...interface{}) {
	s := fmt.Sprintf(format, a...)
	for _, n := range g.vc.Notes {
		if n == s {
			return
		}
	}
	g.vc.Notes = append(g.vc.Notes, s)
}

func (g *gen) pos(p token.Pos) token.Position {
	return g.P.fset.Position(p)
}

// oblige records a proof obligation "guard => cond" at the current point.
func (g *gen) oblige(kind, what string, p token.Pos, cond string, props []string) *Obligation {
	base := fmt.Sprintf("%s/%s/%s", g.vc.Func, kind, what)
	g.oblNames[base]++
	name := base
	if k := g.oblNames[base]; k > 1 {
		name = fmt.Sprintf("%s#%d", base, k)
	}
	o := &Obligation{Name: name, Kind: kind, Func: g.vc.Func, Pos: g.pos(p), Guard: g.curGuard, Cond: cond, Props: props, Expr: what, vc: g.vc, nAsserts: len(g.vc.Asserts)}
	g.vc.Obls = append(g.vc.Obls, o)
	return o
}

// obligeAssume records an obligation and lets the rest of the function assume it.
func (g *gen) obligeAssume(kind, what string, p token.Pos, cond string, props []string) *Obligation {
	if cond == "true" {
		return nil
	}
	o := g.oblige(kind, what, p, cond, props)
	g.assume(cond)
	return o
}

// ---- heap access -------------------------------------------------------------------------------

func (g *gen) heapSort(name string) string { return g.heapSorts[name] }

func (g *gen) heapVar(st *state, name, sort string) string {
	if v, ok := st.heap[name]; ok {
		return v
	}
	g.heapSorts[name] = sort
	key := name + "@" + st.epoch
	if v, ok := g.epochVars[key]; ok {
		return v
	}
	v := key
	ep := g.epochs[st.epoch]
	if ep == nil {
		g.declare(v, sort)
		g.epochVars[key] = v
		if st.epoch == "0" {
			g.entryWellFormed(name, v)
		}
		return v
	}
	isArr := strings.HasPrefix(sort, "(Array Int")
	if ep.keep != nil && isGhostVar(name) {
		// ghost state is never touched by calls or havocs: same variable as before the epoch
		pv := g.heapVar(ep.parents[0].st, name, sort)
		g.epochVars[key] = pv
		return pv
	}
	if ep.keep != nil {
		pv := g.heapVar(ep.parents[0].st, name, sort)
		if isArr {
			switch k := ep.keep(name, "r"); k {
			case "weak":
				// only objects allocated since the parent state may differ: the parent's array is reused
				// (its values at not-yet-allocated references are unconstrained)
				g.epochVars[key] = pv
				if ep.top != "" {
					g.wellFormed(name, pv, ep.top)
				}
				return pv
			case "true":
				g.epochVars[key] = pv
				return pv
			case "false":
				g.declare(v, sort)
			default:
				g.declare(v, sort)
				g.assert(fmt.Sprintf("(forall ((r Int)) (! (=> %s (= (select %s r) (select %s r))) :pattern ((select %s r))))", k, v, pv, v))
			}
			if ep.top != "" {
				g.wellFormed(name, v, ep.top)
			}
		} else if ep.keep(name, "") == "true" {
			g.epochVars[key] = pv
			return pv
		} else {
			g.declare(v, sort)
		}
		g.epochVars[key] = v
		return v
	}
	g.declare(v, sort)
	g.epochVars[key] = v
	// merge epoch: nested ite over the parents
	t := g.heapVar(ep.parents[len(ep.parents)-1].st, name, sort)
	for x := len(ep.parents) - 2; x >= 0; x-- {
		t = sIte(ep.parents[x].cond, g.heapVar(ep.parents[x].st, name, sort), t)
	}
	g.assert(sEq(v, t))
	return v
}

// entryWellFormed: everything stored in the heap at function entry was allocated before entry.
func (g *gen) entryWellFormed(name, v string) { g.wellFormed(name, v, "top0") }

// wellFormed: pointers stored in objects allocated up to `top` point to objects allocated up to `top`.
func (g *gen) wellFormed(name, v, top string) {
	key := "wf:" + v + ":" + top
	if g.declared[key] {
		return
	}
	g.declared[key] = true
	switch g.heapKinds[name] {
	case "ptr":
		g.assert(fmt.Sprintf("(forall ((r Int)) (! (=> (<= r %s) (and (<= 0 (select %s r)) (<= (select %s r) %s))) :pattern ((select %s r))))", top, v, v, top, v))
	case "slice":
		g.assert(fmt.Sprintf("(forall ((r Int)) (! (=> (<= r %s) (and (<= 0 (s.base (select %s r))) (<= (s.base (select %s r)) %s) (<= 0 (s.len (select %s r))) (<= 0 (s.off (select %s r))))) :pattern ((select %s r))))", top, v, v, top, v, v, v))
	case "ptrElems":
		g.assert(fmt.Sprintf("(forall ((r Int) (i Int)) (! (=> (<= r %s) (and (<= 0 (select (select %s r) i)) (<= (select (select %s r) i) %s))) :pattern ((select (select %s r) i))))", top, v, v, top, v))
	}
}

func ptrKind(t types.Type, elems bool) string {
	switch t.Underlying().(type) {
	case *types.Pointer, *types.Map:
		if elems {
			return "ptrElems"
		}
		return "ptr"
	case *types.Slice:
		if !elems {
			return "slice"
		}
	}
	return ""
}

type epochInfo struct {
	top     string // allocation mark when the epoch started
	parents []parentLink
	keep    func(name, r string) string // nil for merge epochs
}

type parentLink struct {
	st   *state
	cond string
}

func isGhostVar(name string) bool {
	return strings.HasPrefix(name, "GHOST.") || strings.HasPrefix(name, "ITER.") || strings.HasPrefix(name, "IT.")
}

// newEpoch starts a new heap epoch in st whose variables relate to the pre-state through keep.
func (g *gen) newEpoch(st *state, keep0 func(name, r string) string, allocates bool) *state {
	keep := keep0
	if len(g.captured) > 0 {
		// variables captured by closures may be written by whatever runs now
		caps := append([]string{}, g.captured...)
		preTopNow := st.top
		keep = func(name, r string) string {
			k := keep0(name, r)
			if r == "" || k == "false" {
				return k
			}
			var ne []string
			for _, c := range caps {
				// a captured variable lives in the cell heap of its type (in the field heaps of its type when it
				// is a struct): whoever runs the closure can write it there and nowhere else
				if ty := g.capturedType[c]; ty != nil {
					if _, isStruct := ty.Underlying().(*types.Struct); isStruct {
						if !strings.HasPrefix(name, "H."+typeKey(ty)+".") {
							continue
						}
					} else if name != cellHeap(ty) {
						continue
					}
				}
				ne = append(ne, sNot(sEq(r, c)))
			}
			switch k {
			case "weak":
				return sAnd(append([]string{app("<=", r, preTopNow)}, ne...)...)
			case "true":
				return sAnd(ne...)
			}
			return sAnd(append([]string{k}, ne...)...)
		}
	}
	pre := st.clone()
	e := g.fresh("e")
	g.epochs[e] = &epochInfo{parents: []parentLink{{pre, "true"}}, keep: keep}
	nh := map[string]string{}
	for name, v := range st.heap {
		if isGhostVar(name) {
			nh[name] = v // ghost state is only changed by the generator itself
			continue
		}
		srt := g.heapSorts[name]
		if strings.HasPrefix(srt, "(Array Int") {
			if k := keep(name, "r"); k == "weak" || k == "true" {
				nh[name] = v
			}
		} else if keep(name, "") == "true" {
			nh[name] = v
		}
	}
	st.heap = nh
	st.epoch = e
	if allocates {
		nt := g.newConst("top", "Int")
		g.assert(app(">=", nt, pre.top))
		st.top = nt
	}
	g.epochs[e].top = st.top
	if allocates {
		for name, v := range st.heap {
			if g.heapKinds[name] != "" {
				g.wellFormed(name, v, st.top)
			}
		}
	}
	return pre
}

func (g *gen) setHeap(st *state, name, sort, term string) {
	g.heapSorts[name] = sort
	c := g.define(name+"@", sort, term)
	st.heap[name] = c
}

func (g *gen) fieldArr(st *state, owner types.Type, i int) (string, string) {
	fs := owner.Underlying().(*types.Struct).Field(i)
	name := heapField(owner, i)
	g.heapKinds[name] = ptrKind(fs.Type(), false)
	sort := "(Array Int " + g.sorts.sortOf(fs.Type()) + ")"
	return g.heapVar(st, name, sort), name
}

func (g *gen) elemArr(st *state, elem types.Type) (string, string) {
	name := elemHeap(elem)
	g.heapKinds[name] = ptrKind(elem, true)
	sort := "(Array Int (Array Int " + g.sorts.sortOf(elem) + "))"
	return g.heapVar(st, name, sort), name
}

func (g *gen) cellArr(st *state, elem types.Type) (string, string) {
	name := cellHeap(elem)
	g.heapKinds[name] = ptrKind(elem, false)
	sort := "(Array Int " + g.sorts.sortOf(elem) + ")"
	return g.heapVar(st, name, sort), name
}

func (g *gen) globalVar(st *state, gl *ssa.Global) (string, string) {
	name := "G." + sanitize(gl.Pkg.Pkg.Name()+"."+gl.Name())
	sort := g.sorts.sortOf(deref(gl.Type()))
	return g.heapVar(st, name, sort), name
}

func (g *gen) applyPath(v string, t types.Type, path []pathStep) (string, types.Type) {
	for _, p := range path {
		if p.field >= 0 {
			s := g.sorts.sortOf(t)
			v = app(g.sorts.fieldAcc(s, p.field), v)
			t = t.Underlying().(*types.Struct).Field(p.field).Type()
		} else {
			v = app("select", v, p.idx)
			t = t.Underlying().(*types.Array).Elem()
		}
	}
	return v, t
}

// updatePath returns the value v (of type t) with the sub-value at path replaced by nv.
func (g *gen) updatePath(v string, t types.Type, path []pathStep, nv string) string {
	if len(path) == 0 {
		return nv
	}
	p := path[0]
	if p.field >= 0 {
		s := g.sorts.sortOf(t)
		st := t.Underlying().(*types.Struct)
		args := make([]string, st.NumFields())
		for i := range args {
			cur := app(g.sorts.fieldAcc(s, i), v)
			if i == p.field {
				args[i] = g.updatePath(cur, st.Field(i).Type(), path[1:], nv)
			} else {
				args[i] = cur
			}
		}
		return app("mk."+s, args...)
	}
	et := t.Underlying().(*types.Array).Elem()
	return app("store", v, p.idx, g.updatePath(app("select", v, p.idx), et, path[1:], nv))
}

func (g *gen) rootType(l *loc) types.Type {
	switch l.kind {
	case locField:
		return l.typ.Underlying().(*types.Struct).Field(l.field).Type()
	case locElem, locCell:
		return l.typ
	case locLocal:
		return deref(l.alloc.Type())
	case locGlobal:
		return deref(l.global.Type())
	}
	return nil
}

func (g *gen) load(st *state, l *loc) string {
	var root string
	switch l.kind {
	case locField:
		h, _ := g.fieldArr(st, l.typ, l.field)
		root = app("select", h, l.base)
	case locElem:
		h, _ := g.elemArr(st, l.typ)
		root = app("select", app("select", h, l.base), l.idx)
	case locCell:
		h, _ := g.cellArr(st, l.typ)
		root = app("select", h, l.base)
	case locLocal:
		root = g.cellValue(st, l.alloc)
	case locGlobal:
		root, _ = g.globalVar(st, l.global)
	}
	v, _ := g.applyPath(root, g.rootType(l), l.path)
	return v
}

func (g *gen) cellValue(st *state, a *ssa.Alloc) string {
	if v, ok := st.cells[a]; ok {
		return v
	}
	// not yet initialised on this path (alloc in a block that does not dominate): zero value
	return g.sorts.zero(deref(a.Type()))
}

func (g *gen) store(st *state, l *loc, v string) {
	rt := g.rootType(l)
	switch l.kind {
	case locField:
		h, name := g.fieldArr(st, l.typ, l.field)
		nv := g.updatePath(app("select", h, l.base), rt, l.path, v)
		g.setHeap(st, name, g.heapSort(name), app("store", h, l.base, nv))
	case locElem:
		h, name := g.elemArr(st, l.typ)
		inner := app("select", h, l.base)
		nv := g.updatePath(app("select", inner, l.idx), rt, l.path, v)
		g.setHeap(st, name, g.heapSort(name), app("store", h, l.base, app("store", inner, l.idx, nv)))
	case locCell:
		h, name := g.cellArr(st, l.typ)
		nv := g.updatePath(app("select", h, l.base), rt, l.path, v)
		g.setHeap(st, name, g.heapSort(name), app("store", h, l.base, nv))
	case locLocal:
		cur := g.cellValue(st, l.alloc)
		nv := g.updatePath(cur, rt, l.path, v)
		st.cells[l.alloc] = g.define("cell."+sanitize(l.alloc.Comment), g.sorts.sortOf(rt), nv)
	case locGlobal:
		cur, name := g.globalVar(st, l.global)
		nv := g.updatePath(cur, rt, l.path, v)
		g.setHeap(st, name, g.heapSort(name), nv)
	}
}

// newRef allocates a fresh reference above the current high-water mark.
func (g *gen) newRef(st *state, what string) string {
	r := g.define("ref."+what, "Int", app("+", st.top, "1"))
	st.top = r
	return r
}

// havocAll forgets everything about the heap (an unknown callee may have written anywhere).
func (g *gen) havocAll(st *state) {
	g.newEpoch(st, func(name, r string) string { return g.privateKeep(name, r) }, true)
	for a := range st.cells {
		if g.escaped[a] {
			st.cells[a] = g.newConst("cell."+sanitize(a.Comment), g.sorts.sortOf(deref(a.Type())))
		}
	}
}

// privateKeep: what survives an arbitrary heap havoc — the objects this function allocated and never let out.
func (g *gen) privateKeep(name, r string) string {
	if r == "" {
		return "false"
	}
	var eqs []string
	for a := range g.private {
		if t, ok := g.vals[a]; ok {
			eqs = append(eqs, sEq(r, t))
		}
	}
	if name == listLenHeap {
		for c := range g.privLists {
			if t, ok := g.vals[c]; ok {
				eqs = append(eqs, sEq(r, t))
			}
		}
	} else if name == listValHeap {
		for c := range g.privLists {
			if t, ok := g.vals[c]; ok {
				eqs = append(eqs, sEq(app("elList", r), t))
			}
		}
	}
	if len(eqs) == 0 {
		return "false"
	}
	sort.Strings(eqs)
	return sOr(eqs...)
}

// privateAnalysis: a heap allocation is private when its address is only used to read/write its own fields or
// passed to callees whose (hand-written) contract or model says exactly what they modify.
func (g *gen) privateAnalysis() {
	g.private = map[*ssa.Alloc]bool{}
	for _, b := range g.fn.Blocks {
		for _, in := range b.Instrs {
			a, ok := in.(*ssa.Alloc)
			if !ok || !a.Heap || a.Referrers() == nil {
				continue
			}
			priv := true
			for _, r := range *a.Referrers() {
				switch u := r.(type) {
				case *ssa.FieldAddr, *ssa.DebugRef:
				case *ssa.UnOp:
				case *ssa.Store:
					if u.Val == ssa.Value(a) {
						priv = false
					}
				case *ssa.MakeClosure:
					if closureEscapes(u) {
						priv = false
					}
				case *ssa.Call:
					callee := u.Call.StaticCallee()
					if callee == nil {
						priv = false
						break
					}
					if _, isModel := models[callee.String()]; isModel {
						break
					}
					if con := g.P.contractFor(callee); con != nil && !con.flag("synth") {
						break
					}
					priv = false
				default:
					priv = false
				}
			}
			if priv {
				g.private[a] = true
			}
		}
	}
}

// privateListAnalysis: a list made by list.New() stays private to this function as long as it is only handed
// to container/list methods and to callees under contract that cannot hand it back (no pointer in their
// results); uses in a block that returns (return ctx.ChildContext(results)) come after every other call.
func (g *gen) privateListAnalysis() {
	g.privLists = map[*ssa.Call]bool{}
	g.privParams = map[*ssa.Parameter]bool{}
	if g.con != nil {
		for _, name := range g.con.Private {
			for _, p := range g.fn.Params {
				if p.Name() != name {
					continue
				}
				if p.Referrers() != nil && g.keptPrivate(*p.Referrers()) {
					g.privParams[p] = true
				} else {
					g.privViolations = append(g.privViolations, name)
				}
			}
		}
	}
	for _, b := range g.fn.Blocks {
		for _, in := range b.Instrs {
			c, ok := in.(*ssa.Call)
			if !ok || c.Referrers() == nil {
				continue
			}
			if callee := c.Call.StaticCallee(); callee == nil || callee.String() != "container/list.New" {
				continue
			}
			if g.keptPrivate(*c.Referrers()) {
				g.privLists[c] = true
			}
		}
	}
}

// keptPrivate: the uses of a list value keep it private (see privateListAnalysis).
func (g *gen) keptPrivate(refs []ssa.Instruction) bool {
	{
		{
			priv := true
			for _, r := range refs {
				if _, ok := r.(*ssa.DebugRef); ok {
					continue
				}
				exit := false
				if blk := r.Block(); blk != nil && len(blk.Instrs) > 0 {
					_, exit = blk.Instrs[len(blk.Instrs)-1].(*ssa.Return)
				}
				u, isCall := r.(*ssa.Call)
				if !isCall {
					if !exit {
						priv = false
					}
					continue
				}
				callee := u.Call.StaticCallee()
				if callee == nil {
					if !exit {
						priv = false
					}
					continue
				}
				if _, isModel := models[callee.String()]; isModel && strings.HasPrefix(callee.String(), "(*container/list.") {
					continue
				}
				con := g.P.contractFor(callee)
				if con != nil && !con.flag("synth") && !unknownFrame(con) && !g.exposesHeap(callee.Signature) {
					continue
				}
				if !exit {
					priv = false
				}
			}
			return priv
		}
	}
}

// assumeNotPrivate: a callee cannot return a list this function keeps to itself and did not pass in.
func (g *gen) assumeNotPrivate(c *ssa.CallCommon, sig *types.Signature, res []string) {
	if len(g.privLists) == 0 && len(g.privParams) == 0 {
		return
	}
	var privs []ssa.Value
	for pc := range g.privLists {
		privs = append(privs, pc)
	}
	for pp := range g.privParams {
		privs = append(privs, pp)
	}
	for _, pc := range privs {
		t, ok := g.vals[pc]
		if !ok {
			continue
		}
		passed := false
		for _, a := range c.Args {
			if a == pc {
				passed = true
			}
		}
		if passed {
			continue
		}
		for i, rt := range g.resultSorts(sig) {
			if i >= len(res) {
				break
			}
			for _, p := range g.listPointersIn(res[i], rt, 0) {
				g.assume(sNot(sEq(p, t)))
			}
		}
	}
}

// listPointersIn: the *list.List-typed components of a value of type t (through struct fields).
func (g *gen) listPointersIn(v string, t types.Type, depth int) []string {
	if depth > 3 {
		return nil
	}
	if isListPtr(t) {
		return []string{v}
	}
	if st, ok := t.Underlying().(*types.Struct); ok {
		if p := namedPkg(t); p != "" && !g.P.isYq(p) {
			return nil
		}
		var out []string
		srt := g.sorts.sortOf(t)
		for i := 0; i < st.NumFields(); i++ {
			out = append(out, g.listPointersIn(app(g.sorts.fieldAcc(srt, i), v), st.Field(i).Type(), depth+1)...)
		}
		return out
	}
	return nil
}

func (g *gen) bumpTop(st *state) string {
	nt := g.newConst("top", "Int")
	g.assert(app(">=", nt, st.top))
	st.top = nt
	return nt
}

// ---- values ------------------------------------------------------------------------------------

func (g *gen) val(st *state, v ssa.Value) string {
	if t, ok := g.vals[v]; ok {
		return t
	}
	switch x := v.(type) {
	case *ssa.Const:
		return g.constTerm(x)
	case *ssa.Global:
		// address of a global: opaque unique ref
		name := "addr.G." + sanitize(x.Pkg.Pkg.Name()+"."+x.Name())
		g.declare(name, "Int")
		return name
	case *ssa.Function:
		name := "fn." + sanitize(x.String())
		if !g.declared[name] {
			g.declare(name, "Int")
			g.assert(app("<", name, "0")) // functions are not heap objects and not nil
		}
		return name
	case *ssa.Builtin:
		return "0"
	}
	if l, ok := g.locs[v]; ok {
		// a pointer with a tracked location used as a value: it escapes.
		return g.escape(st, v, l)
	}
	// value defined in a block we have not executed (should not happen in RPO), or unsupported
	t := g.newConst("undef."+sanitize(v.Name()), g.sorts.sortOf(v.Type()))
	g.vals[v] = t
	return t
}

// escape gives a tracked location a first-class pointer value. The underlying location is
// considered unknown from here on whenever anything is called.
func (g *gen) escape(st *state, v ssa.Value, l *loc) string {
	switch l.kind {
	case locLocal:
		g.escaped[l.alloc] = true
		name := "addr.local." + sanitize(l.alloc.Comment) + fmt.Sprint(len(l.path))
		t := g.newConst(name, "Int")
		g.assert(app("<", t, "0"))
		return t
	case locCell:
		if len(l.path) == 0 {
			return l.base
		}
	case locField:
		// pointer to a struct-valued field used as an object pointer is not modelled
	}
	g.note("pointer to %s escapes in %s; its target is treated as unknown", v.Name(), g.vc.Func)
	t := g.newConst("addr."+sanitize(v.Name()), "Int")
	g.assert(sNot(sEq(t, "0")))
	return t
}

func (g *gen) constTerm(c *ssa.Const) string {
	t := c.Type()
	if c.Value == nil {
		return g.sorts.zero(t)
	}
	switch {
	case isBool(t):
		return boolLit(c.Value.String() == "true")
	case isInt(t):
		if v, ok := constInt(c); ok {
			return bigLit(v)
		}
	case isFloat(t):
		f := c.Float64()
		return floatLit(f)
	case isString(t):
		return strLit(constString(c))
	}
	return g.sorts.zero(t)
}

// ---- CFG preparation ---------------------------------------------------------------------------

func (g *gen) analyseLoops() []*ssa.BasicBlock {
	fn := g.fn
	// back edges: u->h where h dominates u
	for _, b := range fn.Blocks {
		for _, s := range b.Succs {
			if s.Dominates(b) {
				g.back[[2]*ssa.BasicBlock{b, s}] = true
				li := g.loops[s]
				if li == nil {
					li = &loopInfo{header: s, body: map[*ssa.BasicBlock]bool{s: true}, phiTerms: map[*ssa.Phi]string{}}
					g.loops[s] = li
				}
				// natural loop of back edge b->s
				stack := []*ssa.BasicBlock{b}
				for len(stack) > 0 {
					x := stack[len(stack)-1]
					stack = stack[:len(stack)-1]
					if li.body[x] {
						continue
					}
					li.body[x] = true
					stack = append(stack, x.Preds...)
				}
			}
		}
	}
	// loop ordinals by source position of the header (falls back to block index)
	var hs []*ssa.BasicBlock
	for h := range g.loops {
		hs = append(hs, h)
	}
	bodyPos := func(h *ssa.BasicBlock) token.Pos {
		best := token.NoPos
		for b := range g.loops[h].body {
			for _, in := range b.Instrs {
				if _, isD := in.(*ssa.DebugRef); isD {
					continue
				}
				if p := in.Pos(); p.IsValid() && (best == token.NoPos || p < best) {
					best = p
				}
			}
		}
		return best
	}
	sort.Slice(hs, func(i, j int) bool {
		pi, pj := bodyPos(hs[i]), bodyPos(hs[j])
		if pi != pj {
			return pi < pj
		}
		if li, lj := len(g.loops[hs[i]].body), len(g.loops[hs[j]].body); li != lj {
			return li > lj
		}
		return hs[i].Index < hs[j].Index
	})
	for i, h := range hs {
		g.loops[h].ordinal = i + 1
		if g.con != nil {
			g.loops[h].con = g.con.Loops[i+1]
		}
	}
	// reverse post-order ignoring back edges
	var order []*ssa.BasicBlock
	seen := map[*ssa.BasicBlock]bool{}
	var dfs func(b *ssa.BasicBlock)
	dfs = func(b *ssa.BasicBlock) {
		seen[b] = true
		for i := len(b.Succs) - 1; i >= 0; i-- {
			s := b.Succs[i]
			if g.back[[2]*ssa.BasicBlock{b, s}] || seen[s] {
				continue
			}
			dfs(s)
		}
		order = append(order, b)
	}
	if len(fn.Blocks) > 0 {
		dfs(fn.Blocks[0])
	}
	for i, j := 0, len(order)-1; i < j; i, j = i+1, j-1 {
		order[i], order[j] = order[j], order[i]
	}
	return order
}

func loopPos(b *ssa.BasicBlock) token.Pos {
	best := token.NoPos
	for _, in := range b.Instrs {
		if p := in.Pos(); p.IsValid() && (best == token.NoPos || p < best) {
			best = p
		}
		if d, ok := in.(*ssa.DebugRef); ok {
			if p := d.Expr.Pos(); p.IsValid() && (best == token.NoPos || p < best) {
				best = p
			}
		}
	}
	return best
}

// zeroOffAnalysis marks slice values whose offset into their backing array is statically 0.
func (g *gen) zeroOffAnalysis() {
	cand := map[ssa.Value]bool{}
	for _, b := range g.fn.Blocks {
		for _, in := range b.Instrs {
			switch x := in.(type) {
			case *ssa.MakeSlice:
				cand[x] = true
			case *ssa.Call:
				if bi, ok := x.Call.Value.(*ssa.Builtin); ok && bi.Name() == "append" {
					cand[x] = true
				}
			case *ssa.Slice:
				if x.Low == nil {
					cand[x] = true
				}
			case *ssa.Phi:
				if _, ok := x.Type().Underlying().(*types.Slice); ok {
					cand[x] = true
				}
			}
		}
	}
	changed := true
	for changed {
		changed = false
		for v := range cand {
			ok := true
			switch x := v.(type) {
			case *ssa.Slice:
				if _, isPtr := x.X.Type().Underlying().(*types.Pointer); !isPtr {
					if !cand[x.X] {
						ok = false
					}
				}
			case *ssa.Phi:
				for _, e := range x.Edges {
					if c, isC := e.(*ssa.Const); isC && c.Value == nil {
						continue
					}
					if !cand[e] {
						ok = false
					}
				}
			}
			if !ok {
				delete(cand, v)
				changed = true
			}
		}
	}
	g.zeroOff = cand
}

// ---- driver ------------------------------------------------------------------------------------

func (P *Program) generate(fn *ssa.Function, con *Contract, opts genOpts) (vc *VC, err error) {
	defer func() {
		if r := recover(); r != nil {
			if ge, ok := r.(genError); ok {
				err = ge
				return
			}
			panic(r)
		}
	}()
	g := &gen{P: P, fn: fn, con: con, sorts: newSortReg(), vals: map[ssa.Value]string{}, locs: map[ssa.Value]*loc{}, tuples: map[ssa.Value][]string{},
		guard: map[*ssa.BasicBlock]string{}, exit: map[*ssa.BasicBlock]*state{}, edge: map[[2]*ssa.BasicBlock]string{}, loops: map[*ssa.BasicBlock]*loopInfo{},
		back: map[[2]*ssa.BasicBlock]bool{}, declared: map[string]bool{}, iters: map[*ssa.Range]*iterInfo{}, closures: map[ssa.Value]*ssa.MakeClosure{},
		oblNames: map[string]int{}, opts: opts, params: map[string]ssa.Value{}, escaped: map[*ssa.Alloc]bool{}, heapSorts: map[string]string{}, heapKinds: map[string]string{}, epochVars: map[string]string{}, epochs: map[string]*epochInfo{}}
	g.vc = &VC{Func: P.relName(fn), Sorts: g.sorts}
	if len(fn.Blocks) == 0 {
		return nil, fmt.Errorf("%s has no body", fn)
	}
	order := g.analyseLoops()
	g.zeroOffAnalysis()
	g.privateAnalysis()
	g.privateListAnalysis()
	g.siteAnalysis()
	// entry state
	st := &state{heap: map[string]string{}, cells: map[*ssa.Alloc]string{}, epoch: "0"}
	for n := range g.counted {
		g.heapSorts["GHOST.calls."+n] = "Int"
		st.heap["GHOST.calls."+n] = "0"
	}
	g.declare("top0", "Int")
	g.assert("(>= top0 0)")
	g.top0 = "top0"
	st.top = "top0"
	g.entry = st.clone()
	g.curGuard = "true"
	for _, p := range fn.Params {
		t := g.newConst("p."+sanitize(p.Name()), g.sorts.sortOf(p.Type()))
		g.vals[p] = t
		g.params[p.Name()] = p
		g.assumeAllocated(st, t, p.Type())
	}
	for _, fv := range fn.FreeVars {
		t := g.newConst("fv."+sanitize(fv.Name()), "Int")
		g.vals[fv] = t
		g.params[fv.Name()] = fv
		g.assert(sAnd(app(">", t, "0"), app("<=", t, "top0")))
		g.locs[fv] = &loc{kind: locCell, base: t, typ: deref(fv.Type()), vtype: deref(fv.Type())}
	}
	g.errFlag = "false"
	for _, name := range g.privViolations {
		g.oblige("private", "parameter "+name+" is declared private but the body lets it out of its hands", fn.Pos(), "false", nil)
	}
	// preconditions
	if con != nil {
		e := g.entryEnv(st)
		for _, r := range con.Requires {
			g.assert(g.specBool(e, r.Expr))
		}
		for _, r := range con.Assumes {
			g.assert(g.specBool(e, r.Expr))
			P.usedAssumption("assumed invariant in " + g.vc.Func + ": " + r.Text)
		}
	}
	if fn.Pkg != nil {
		g.vc.Pkg = fn.Pkg.Pkg.Path()
	} else if fn.Parent() != nil && fn.Parent().Pkg != nil {
		g.vc.Pkg = fn.Parent().Pkg.Pkg.Path()
	}
	if opts.errprop {
		g.heapSorts["GHOST.err"] = "Bool"
		st.heap["GHOST.err"] = "false"
	}
	g.prepareReplay()
	g.guard[fn.Blocks[0]] = "true"
	for _, b := range order {
		g.execBlock(b, st)
	}
	g.recoveredExit()
	return g.vc, nil
}

// recoveredExit: a function that defers a call of recover() also returns when a panic was recovered, from
// go/ssa's Recover block. With unnamed results that block returns the zero value of every result, whatever the
// state: the postconditions are checked for that return too (in a state about which nothing is known). With
// named results the values are whatever the deferred functions left in them; that needs the deferred bodies in a
// panicking state, which is not modelled: no obligation is generated and the assumption is listed.
func (g *gen) recoveredExit() {
	fn := g.fn
	if os.Getenv("YQV_DEBUG_REC") != "" {
		fmt.Fprintf(os.Stderr, "recoveredExit %s recover=%v con=%v defers=%d\n", fn, fn.Recover != nil, g.con != nil, len(g.allDefers()))
	}
	if fn.Recover == nil || g.con == nil {
		return
	}
	recovers := false
	for _, d := range g.allDefers() {
		if mc, ok := d.Call.Value.(*ssa.MakeClosure); ok {
			if f, ok := mc.Fn.(*ssa.Function); ok {
				for _, b := range f.Blocks {
					for _, in := range b.Instrs {
						if c, ok := in.(*ssa.Call); ok {
							if bi, ok := c.Call.Value.(*ssa.Builtin); ok && bi.Name() == "recover" {
								recovers = true
							}
						}
					}
				}
			}
		}
	}
	if os.Getenv("YQV_DEBUG_REC") != "" {
		fmt.Fprintf(os.Stderr, "  recovers=%v block=%v\n", recovers, fn.Recover.Instrs)
	}
	if !recovers {
		return
	}
	var ret *ssa.Return
	for _, in := range fn.Recover.Instrs {
		if r, ok := in.(*ssa.Return); ok {
			ret = r
		}
	}
	if ret == nil {
		return
	}
	res := fn.Signature.Results()
	for i := 0; i < res.Len(); i++ {
		if res.At(i).Name() != "" && res.At(i).Name() != "_" {
			g.P.usedAssumption("recovered-panic exit of " + g.vc.Func + ": its named results are set by the deferred function; that exit is not modelled")
			return
		}
	}
	// unnamed results: when the panic happens before any return statement has run, the result slots still hold
	// their zero values (a panic inside a deferred call after a return statement stored its values is not modelled)
	st := g.entry.clone()
	g.curGuard = "true"
	g.curBlock = fn.Recover
	g.guard[fn.Recover] = "true"
	g.newEpoch(st, func(name, r string) string { return "false" }, true)
	for i, r := range ret.Results {
		g.vals[r] = g.sorts.zero(res.At(i).Type())
	}
	g.retTag = " after a recovered panic"
	g.execReturn(ret, st)
	g.retTag = ""
}

type genError struct{ msg string }

func (e genError) Error() string { return e.msg }

func (g *gen) fail(format string, a ...interface{}) {
	panic(genError{fmt.Sprintf("%s: ", g.vc.Func) + fmt.Sprintf(format, a...)})
}

// assumeAllocated: pointers that exist before the call are at most top.
func (g *gen) assumeAllocated(st *state, t string, ty types.Type) {
	switch ty.Underlying().(type) {
	case *types.Pointer, *types.Map:
		g.assume(sAnd(app(">=", t, "0"), app("<=", t, st.top)))
	case *types.Basic:
		if isString(ty) {
			g.assume(app("<=", app("str.len", t), "72057594037927936"))
		} else if isInt(ty) {
			// machine integers: every value of the type lies in its range
			bits, signed := intRange(ty)
			lo, hi := "0", new(big.Int).Sub(new(big.Int).Lsh(big.NewInt(1), uint(bits)), big.NewInt(1)).String()
			if signed {
				lo = "(- " + new(big.Int).Lsh(big.NewInt(1), uint(bits-1)).String() + ")"
				hi = new(big.Int).Sub(new(big.Int).Lsh(big.NewInt(1), uint(bits-1)), big.NewInt(1)).String()
			}
			g.assume(sAnd(app("<=", lo, t), app("<=", t, hi)))
		}
	case *types.Slice:
		b, o, l := g.sliceParts(t)
		g.assume(sAnd(app(">=", b, "0"), app("<=", b, st.top), app(">=", l, "0"), app("<=", l, "72057594037927936"), app(">=", o, "0"), app("<=", o, "72057594037927936"),
			sImp(sEq(b, "0"), sEq(l, "0"))))
	case *types.Struct:
		// a struct value: each of its components is a value of its type
		if p := namedPkg(ty); p != "" && !g.P.isYq(p) {
			return
		}
		sst := ty.Underlying().(*types.Struct)
		if sst.NumFields() > 12 {
			return
		}
		srt := g.sorts.sortOf(ty)
		for i := 0; i < sst.NumFields(); i++ {
			switch sst.Field(i).Type().Underlying().(type) {
			case *types.Pointer, *types.Map, *types.Slice, *types.Basic:
				g.assumeAllocated(st, app(g.sorts.fieldAcc(srt, i), t), sst.Field(i).Type())
			}
		}
	}
}

func (g *gen) entryState(b *ssa.BasicBlock, fallback *state) (*state, string) {
	// merge the exit states of all non-back-edge predecessors
	type inc struct {
		st *state
		c  string
	}
	var ins []inc
	for _, p := range b.Preds {
		if g.back[[2]*ssa.BasicBlock{p, b}] {
			continue
		}
		es := g.exit[p]
		if es == nil {
			continue
		}
		ins = append(ins, inc{es, g.edge[[2]*ssa.BasicBlock{p, b}]})
	}
	if len(ins) == 0 {
		return fallback, "true"
	}
	var conds []string
	for _, i := range ins {
		conds = append(conds, i.c)
	}
	guard := g.define(fmt.Sprintf("g.b%d", b.Index), "Bool", sOr(conds...))
	if len(ins) == 1 {
		return ins[0].st.clone(), guard
	}
	// merge
	m := &state{heap: map[string]string{}, cells: map[*ssa.Alloc]string{}}
	sameEpoch := true
	for _, i := range ins[1:] {
		if i.st.epoch != ins[0].st.epoch {
			sameEpoch = false
		}
	}
	if sameEpoch {
		m.epoch = ins[0].st.epoch
	} else {
		m.epoch = g.fresh("e")
		ei := &epochInfo{}
		for _, i := range ins {
			ei.parents = append(ei.parents, parentLink{i.st, i.c})
		}
		g.epochs[m.epoch] = ei
	}
	keys := map[string]bool{}
	for _, i := range ins {
		for k := range i.st.heap {
			keys[k] = true
		}
	}
	var ks []string
	for k := range keys {
		ks = append(ks, k)
	}
	sort.Strings(ks)
	for _, k := range ks {
		srt := g.heapSorts[k]
		first := g.heapVar(ins[0].st, k, srt)
		same := true
		for _, i := range ins[1:] {
			if g.heapVar(i.st, k, srt) != first {
				same = false
			}
		}
		if same {
			if _, ok := ins[0].st.heap[k]; ok || !sameEpoch {
				m.heap[k] = first
			}
			continue
		}
		// nested ite over the incoming edges (the last one is the default)
		t := g.heapVar(ins[len(ins)-1].st, k, srt)
		for x := len(ins) - 2; x >= 0; x-- {
			t = sIte(ins[x].c, g.heapVar(ins[x].st, k, srt), t)
		}
		m.heap[k] = g.define(k+"@m", srt, t)
	}
	// cells
	cellKeys := map[*ssa.Alloc]bool{}
	for _, i := range ins {
		for a := range i.st.cells {
			cellKeys[a] = true
		}
	}
	for a := range cellKeys {
		first := g.cellValue(ins[0].st, a)
		same := true
		for _, i := range ins[1:] {
			if g.cellValue(i.st, a) != first {
				same = false
			}
		}
		if same {
			m.cells[a] = first
			continue
		}
		t := g.cellValue(ins[len(ins)-1].st, a)
		for x := len(ins) - 2; x >= 0; x-- {
			t = sIte(ins[x].c, g.cellValue(ins[x].st, a), t)
		}
		m.cells[a] = g.define("cell."+sanitize(a.Comment)+"@m", g.sorts.sortOf(deref(a.Type())), t)
	}
	// top
	first := ins[0].st.top
	same := true
	for _, i := range ins[1:] {
		if i.st.top != first {
			same = false
		}
	}
	if same {
		m.top = first
	} else {
		t := ins[len(ins)-1].st.top
		for x := len(ins) - 2; x >= 0; x-- {
			t = sIte(ins[x].c, ins[x].st.top, t)
		}
		m.top = g.define("top@m", "Int", t)
	}
	return m, guard
}

func (g *gen) execBlock(b *ssa.BasicBlock, initial *state) {
	var st *state
	var guard string
	if b.Index == 0 {
		st, guard = initial, "true"
	} else {
		st, guard = g.entryState(b, nil)
		if st == nil {
			return // unreachable (only via edges we dropped)
		}
	}
	g.guard[b] = guard
	g.curGuard = guard
	g.curBlock = b
	li := g.loops[b]
	// phis
	var phis []*ssa.Phi
	for _, in := range b.Instrs {
		if p, ok := in.(*ssa.Phi); ok {
			phis = append(phis, p)
		} else {
			break
		}
	}
	for _, p := range phis {
		srt := g.sorts.sortOf(p.Type())
		var c string
		if g.zeroOff[p] {
			bc := g.newConst("phi."+sanitize(p.Comment)+".base", "Int")
			lc := g.newConst("phi."+sanitize(p.Comment)+".len", "Int")
			c = app("mk-slice", bc, "0", lc)
		} else {
			c = g.newConst("phi."+sanitize(p.Comment)+"."+p.Name(), srt)
		}
		g.vals[p] = c
	}
	if li == nil {
		for _, p := range phis {
			var vals, conds []string
			for i, e := range p.Edges {
				pred := b.Preds[i]
				if g.exit[pred] == nil {
					continue
				}
				vals = append(vals, g.val(g.exit[pred], e))
				conds = append(conds, g.edge[[2]*ssa.BasicBlock{pred, b}])
			}
			if len(vals) == 0 {
				continue
			}
			t := vals[len(vals)-1]
			for x := len(vals) - 2; x >= 0; x-- {
				t = sIte(conds[x], vals[x], t)
			}
			g.assert(sEq(g.vals[p], t))
		}
	} else {
		g.enterLoop(li, b, st, phis)
	}
	for _, in := range b.Instrs {
		if _, ok := in.(*ssa.Phi); ok {
			continue
		}
		g.execInstr(in, st)
	}
	g.exit[b] = st
	// outgoing edges
	switch t := b.Instrs[len(b.Instrs)-1].(type) {
	case *ssa.If:
		c := g.val(st, t.Cond)
		g.edge[[2]*ssa.BasicBlock{b, b.Succs[0]}] = sAnd(guard, c)
		g.edge[[2]*ssa.BasicBlock{b, b.Succs[1]}] = sAnd(guard, sNot(c))
	case *ssa.Jump:
		g.edge[[2]*ssa.BasicBlock{b, b.Succs[0]}] = guard
	}
	for _, s := range b.Succs {
		if g.back[[2]*ssa.BasicBlock{b, s}] {
			g.closeLoop(g.loops[s], b, st)
		}
	}
}

func constInt(c *ssa.Const) (*bigInt, bool) { return constBig(c) }

func describeInstr(in ssa.Instruction) string {
	if v, ok := in.(ssa.Value); ok {
		return v.Name() + " = " + in.String()
	}
	return in.String()
}

var _ = strings.Join

var countedCallRe = regexp.MustCompile(`calls(?:Here)?\(([A-Za-z0-9_]+)\)`)
var resultOfRe = regexp.MustCompile(`resultOf\(([A-Za-z0-9_]+)\)`)

// recordResult remembers the first result of the call just executed when the contract names it with
// resultOf(NAME) (ghost: on a path that made no such call the value is unconstrained).
func (g *gen) recordResult(n string, v ssa.Value, st *state) {
	if v == nil {
		return
	}
	t, ok := g.vals[v]
	if !ok {
		if tu, ok2 := g.tuples[v]; ok2 && len(tu) > 0 {
			t = tu[0]
		} else {
			return
		}
	}
	h := "GHOST.result." + n
	g.heapSorts[h] = g.sorts.sortOf(g.resultNamed[n])
	st.heap[h] = t
}

// countCall bumps the ghost counter of calls named like this one (see calls(NAME) in the contract language).
func (g *gen) countCall(c *ssa.CallCommon, st *state) {
	if len(g.counted) == 0 {
		return
	}
	n := calledName(c)
	if !g.counted[n] {
		return
	}
	h := "GHOST.calls." + n
	g.heapSorts[h] = "Int"
	cur, ok := st.heap[h]
	if !ok {
		cur = "0"
	}
	st.heap[h] = g.define("calls."+n, "Int", app("+", cur, "1"))
}

// calledName: the short name a site clause uses for a call: the function or method name.
func calledName(c *ssa.CallCommon) string {
	if c.IsInvoke() {
		return c.Method.Name()
	}
	if callee := c.StaticCallee(); callee != nil {
		return callee.Name()
	}
	// a call through a function value: the field or parameter that holds it
	switch v := c.Value.(type) {
	case *ssa.Field:
		if st, ok := v.X.Type().Underlying().(*types.Struct); ok {
			return st.Field(v.Field).Name()
		}
	case *ssa.UnOp:
		if fa, ok := v.X.(*ssa.FieldAddr); ok {
			if st, ok := deref(fa.X.Type()).Underlying().(*types.Struct); ok {
				return st.Field(fa.Field).Name()
			}
		}
	case *ssa.Parameter:
		return v.Name()
	}
	return ""
}

// siteAnalysis numbers the calls of each name in source order and reports site clauses naming no call.
func (g *gen) siteAnalysis() {
	g.siteOrd = map[ssa.Instruction]int{}
	g.counted = map[string]bool{}
	if g.con != nil {
		// calls(NAME) in a contract: a ghost counter of the calls of that name this function has made so far
		var texts []string
		for _, l := range [][]*Clause{g.con.Requires, g.con.Ensures, g.con.Sites, g.con.Always} {
			for _, c := range l {
				texts = append(texts, c.Text)
			}
		}
		for _, lc := range g.con.Loops {
			for _, c := range lc.Invariants {
				texts = append(texts, c.Text)
			}
		}
		for _, t := range texts {
			for _, m := range countedCallRe.FindAllStringSubmatch(t, -1) {
				g.counted[m[1]] = true
			}
			for _, m := range resultOfRe.FindAllStringSubmatch(t, -1) {
				if g.resultNamed == nil {
					g.resultNamed = map[string]types.Type{}
				}
				g.resultNamed[m[1]] = nil
			}
		}
		for _, b := range g.fn.Blocks {
			for _, in := range b.Instrs {
				if ci, ok := in.(ssa.CallInstruction); ok {
					n := calledName(ci.Common())
					if _, want := g.resultNamed[n]; want && ci.Common().Signature().Results().Len() > 0 {
						g.resultNamed[n] = ci.Common().Signature().Results().At(0).Type()
					}
				}
			}
		}
	}
	if g.con == nil || len(g.con.Sites) == 0 {
		return
	}
	byName := map[string][]ssa.Instruction{}
	for _, b := range g.fn.Blocks {
		for _, in := range b.Instrs {
			if ci, ok := in.(ssa.CallInstruction); ok {
				if n := calledName(ci.Common()); n != "" {
					byName[n] = append(byName[n], in)
				}
			}
		}
	}
	for n, l := range byName {
		sort.SliceStable(l, func(i, j int) bool { return l[i].Pos() < l[j].Pos() })
		for i, in := range l {
			g.siteOrd[in] = i + 1
		}
		byName[n] = l
	}
	for _, s := range g.con.Sites {
		name, k := s.Site, 0
		if i := strings.Index(name, "#"); i >= 0 {
			fmt.Sscanf(name[i+1:], "%d", &k)
			name = name[:i]
		}
		if name == "return" {
			continue
		}
		if len(byName[name]) == 0 || k > len(byName[name]) {
			g.curGuard = "true"
			g.oblige("site", s.Site+" (the contract names a call this function does not make)", g.fn.Pos(), "false", s.Props)
		}
	}
}

// siteAsserts: the contract's assertions for this call site, evaluated in the state just before the call.
func (g *gen) siteAsserts(instr ssa.Instruction, c *ssa.CallCommon, st *state) {
	if g.con == nil || len(g.con.Sites) == 0 || !g.opts.functional {
		return
	}
	n := calledName(c)
	if n == "" {
		return
	}
	for _, s := range g.con.Sites {
		if s.Site != n && s.Site != fmt.Sprintf("%s#%d", n, g.siteOrd[instr]) {
			continue
		}
		g.siteInstr = instr
		e := g.pointEnv(instr.Block(), st, func(p *ssa.Phi) string { return g.vals[p] })
		// arg0, arg1, ...: the values the call is about to pass (arg0 is the receiver of a method call)
		var actuals []ssa.Value
		if c.IsInvoke() {
			actuals = append(actuals, c.Value)
		}
		actuals = append(actuals, c.Args...)
		for i, a := range actuals {
			e.names[fmt.Sprintf("arg%d", i)] = g.goVal(g.val(st, a), a.Type())
		}
		lbl := s.Label
		if lbl == "" {
			lbl = s.Text
		}
		cond := g.specBool(e, s.Expr)
		g.siteInstr = nil
		g.obligeAssume("site", "before "+s.Site+"/"+lbl, instr.Pos(), cond, s.Props)
	}
}
