package main

import (
	"fmt"
	"os"
	"sort"
	"strings"
	"sync"

	"golang.org/x/tools/go/ssa"
)

type oblResult struct {
	Obl          *Obligation
	Res          solverResult
	OK           bool
	Inconclusive bool
}

func (P *Program) queryFor(o *Obligation, model bool) string { return P.queryForOpt(o, model, false) }

func (P *Program) queryForOpt(o *Obligation, model bool, lite bool) string {
	var b strings.Builder
	for _, e := range o.Extra {
		b.WriteString(e)
		b.WriteByte('\n')
	}
	if o.Guard != "true" {
		fmt.Fprintf(&b, "(assert %s)\n", o.Guard)
	}
	if !o.Cover {
		fmt.Fprintf(&b, "(assert (not %s))\n", o.Cond)
	}
	b.WriteString("(check-sat)\n")
	if model {
		b.WriteString("(get-model)\n")
	}
	return P.vcTextOpt(o.vc, o.nAsserts, b.String(), lite)
}

func (P *Program) discharge(obls []*Obligation, dir string, timeoutMs int, all bool, filter string) []oblResult {
	results := make([]oblResult, len(obls))
	var wg sync.WaitGroup
	for i, o := range obls {
		if filter != "" && !strings.Contains(o.Name, filter) {
			results[i] = oblResult{Obl: o, OK: true, Res: solverResult{Verdict: "skipped"}}
			continue
		}
		wg.Add(1)
		go func(i int, o *Obligation) {
			defer wg.Done()
			solverSlots <- struct{}{}
			defer func() { <-solverSlots }()
			results[i] = P.dischargeOne(o, dir, timeoutMs, all)
		}(i, o)
	}
	wg.Wait()
	return results
}

// solverSlots bounds the obligations being decided at once in this process (each races up to three solvers):
// a solver starved of CPU times out on a query it decides in a second otherwise.
var solverSlots = make(chan struct{}, 16)

// fastMode: single solver (z3-new), used by the frame inference where thousands of small queries are sent.
var fastMode = false

func (P *Program) dischargeOne(o *Obligation, dir string, timeoutMs int, all bool) oblResult {
	if !o.Cover && (o.Cond == "true") {
		return oblResult{Obl: o, OK: true, Res: solverResult{Verdict: "unsat", Solver: "trivial"}}
	}
	q := P.queryFor(o, false)
	if o.Cover {
		// a cover must be satisfiable; one solver is enough and unknown is inconclusive
		r := runQuery(dir, o.Name, q, minInt(timeoutMs, 3000), false, []string{"z3-new", "z3"})
		switch r.Verdict {
		case "sat":
			return oblResult{Obl: o, Res: r, OK: true}
		case "unsat":
			return oblResult{Obl: o, Res: r, OK: false}
		}
		return oblResult{Obl: o, Res: r, OK: true, Inconclusive: true}
	}
	// fast path: without any quantified assumption (sound; most safety obligations need none)
	if !strings.Contains(o.Cond, "(forall ") && !strings.Contains(o.Cond, "(exists ") {
		lq := P.queryForOpt(o, false, true)
		liteSolvers := []string{"z3-new", "z3"}
		if r := runQuery(dir, o.Name+".lite", lq, 1500, false, liteSolvers); r.Verdict == "unsat" {
			r.Solver += "(lite)"
			return oblResult{Obl: o, Res: r, OK: true}
		}
	}
	var only []string
	if fastMode {
		only = []string{"z3-new"}
	}
	r := runQuery(dir, o.Name, q, timeoutMs, all, only)
	if fastMode && r.Verdict != "unsat" && r.Verdict != "sat" {
		// the single fast solver gave up: let the others try before calling it a failure
		r = runQuery(dir, o.Name, q, timeoutMs, all, []string{"z3", "cvc5"})
	}
	return oblResult{Obl: o, Res: r, OK: r.Verdict == "unsat"}
}

func minInt(a, b int) int {
	if a < b {
		return a
	}
	return b
}

// generateFixpoint generates the VC of fn, dropping automatic invariant candidates that cannot be
// established (Houdini): the candidates that survive are proved like any other invariant.
func (P *Program) generateFixpoint(fn *ssa.Function, con *Contract, opts genOpts, timeoutMs int) (*VC, error) {
	for round := 0; round < 8; round++ {
		vc, err := P.generate(fn, con, opts)
		if err != nil {
			return nil, err
		}
		var autos []*Obligation
		for _, o := range vc.Obls {
			if strings.HasPrefix(o.Kind, "auto-") {
				autos = append(autos, o)
			}
		}
		if len(autos) == 0 {
			return vc, nil
		}
		dir, cleanup := tempDir()
		res := P.discharge(autos, dir, minInt(timeoutMs, 3000), false, "")
		cleanup()
		dropped := false
		for _, r := range res {
			if !r.OK {
				P.mu.Lock()
				P.disabledAuto[vc.Func+"/"+r.Obl.Expr] = true
				if os.Getenv("YQV_DEBUG") != "" {
					fmt.Fprintf(os.Stderr, "auto invariant dropped: %s (%s %s)\n", r.Obl.Name, r.Obl.Kind, r.Res.Verdict)
				}
				P.mu.Unlock()
				dropped = true
			}
		}
		if !dropped {
			// the surviving candidates are now ordinary, proved invariants; do not re-run them
			var rest []*Obligation
			for _, o := range vc.Obls {
				if !strings.HasPrefix(o.Kind, "auto-") {
					rest = append(rest, o)
				}
			}
			vc.Obls = rest
			vc.Notes = append(vc.Notes, fmt.Sprintf("%d automatic loop invariants inferred and proved", len(autos)/2))
			sort.Strings(vc.Notes)
			return vc, nil
		}
	}
	return nil, fmt.Errorf("%s: automatic invariant inference did not converge", fn)
}
