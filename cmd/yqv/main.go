package main

import (
	"flag"
	"fmt"
	"go/types"
	"os"
	"sort"
	"strings"
	"sync"
)

func usage() {
	fmt.Fprintln(os.Stderr, `usage: yqv <command> [flags]
  check <property>  [--tier quick|thorough]   run the check of one property
  vc <function>     [--mode ...] [--dump]     generate and discharge the VC of one function (debugging)
  list                                         list functions under contract
  selftest                                     run the must-fail / must-pass corpus`)
	os.Exit(2)
}

func main() {
	if len(os.Args) < 2 {
		usage()
	}
	if os.Getenv("YQV_NOCACHE") == "" {
		cacheDir = envOr("YQV_CACHE", envOr("VERIF_DIR", "/verif")+"/.cache/q")
	}
	switch os.Args[1] {
	case "vc":
		cmdVC(os.Args[2:])
	case "check":
		cmdCheck(os.Args[2:])
	case "list":
		cmdList(os.Args[2:])
	case "lemmas":
		P, err := loadProgram(envOr("YQ_REPO", "/repo"), envOr("VERIF_DIR", "/verif"))
		if err != nil {
			fmt.Fprintln(os.Stderr, err)
			os.Exit(2)
		}
		dir, cleanup := tempDir()
		defer cleanup()
		id := ""
		if len(os.Args) > 2 {
			id = os.Args[2]
		}
		for _, pid := range []string{"C01", "C02", "C03", "C04", "C05", "C06", "C07", "C08", "C09", "C10", "C11", "C12", "C13", "C15", "C16", "C17", "C18", "C19"} {
			if id != "" && id != pid {
				continue
			}
			for _, r := range P.runLemmas(pid, dir, 10000, true) {
				fmt.Printf("%-5v %s  %s\n", r.OK, r.Name, strings.SplitN(r.Detail, "\n", 2)[0])
			}
		}
	case "infer":
		P, err := loadProgram(envOr("YQ_REPO", "/repo"), envOr("VERIF_DIR", "/verif"))
		if err != nil {
			fmt.Fprintln(os.Stderr, err)
			os.Exit(2)
		}
		roots := P.readonlyHandlers()
		fastMode = true
		U := P.inferFrames(roots, 3000)
		var names []string
		byName := map[string]*inferred{}
		for f, inf := range U {
			n := P.relName(f)
			names = append(names, n)
			byName[n] = inf
		}
		sort.Strings(names)
		cnt := map[string]int{}
		for _, n := range names {
			inf := byName[n]
			cnt[inf.class.String()]++
			cl := inf.class.String()
			if w := inf.writable(); len(w) > 0 && inf.class != clsImpure {
				cl += "+writes(" + strings.Join(w, ",") + ")"
			}
			fmt.Printf("%-28s fresh=%v  %s   %s\n", cl, inf.fresh, n, inf.reason)
		}
		fmt.Println(cnt)
	case "sweep-record":
		P, err := loadProgram(envOr("YQ_REPO", "/repo"), envOr("VERIF_DIR", "/verif"))
		if err != nil {
			fmt.Fprintln(os.Stderr, err)
			os.Exit(2)
		}
		sweepRecord(P)
	case "errsweep":
		// development aid: run the error-propagation obligation on every yq function that returns an error
		P, err := loadProgram(envOr("YQ_REPO", "/repo"), envOr("VERIF_DIR", "/verif"))
		if err != nil {
			fmt.Fprintln(os.Stderr, err)
			os.Exit(2)
		}
		fastMode = true
		var names []string
		for n, fn := range P.funcs {
			sig := fn.Signature
			k := sig.Results().Len()
			if k > 0 && types.TypeString(sig.Results().At(k-1).Type(), nil) == "error" {
				names = append(names, n)
			}
		}
		sort.Strings(names)
		dir, cleanup := tempDir()
		defer cleanup()
		var wg sync.WaitGroup
		var mu sync.Mutex
		sem := make(chan struct{}, 12)
		var bad []string
		okc := 0
		for _, n := range names {
			wg.Add(1)
			go func(n string) {
				defer wg.Done()
				sem <- struct{}{}
				defer func() { <-sem }()
				vc, err := P.generateFixpoint(P.funcs[n], P.contractFor(P.funcs[n]), genOpts{errprop: true, assumeTypeAsserts: true}, 3000)
				if err != nil {
					mu.Lock()
					bad = append(bad, "GENERR "+n+": "+err.Error())
					mu.Unlock()
					return
				}
				var sel []*Obligation
				for _, o := range vc.Obls {
					if o.Kind == "errprop" {
						sel = append(sel, o)
					}
				}
				for _, r := range P.discharge(sel, dir, 3000, false, "") {
					mu.Lock()
					if r.OK {
						okc++
					} else {
						bad = append(bad, fmt.Sprintf("%-8s %s (%s:%d)", r.Res.Verdict, r.Obl.Name, shortFile(r.Obl.Pos.Filename), r.Obl.Pos.Line))
					}
					mu.Unlock()
				}
			}(n)
		}
		wg.Wait()
		sort.Strings(bad)
		for _, b := range bad {
			fmt.Println(b)
		}
		fmt.Printf("%d functions, %d errprop obligations ok, %d not\n", len(names), okc, len(bad))
	case "warm":
		if _, err := loadProgram(envOr("YQ_REPO", "/repo"), envOr("VERIF_DIR", "/verif")); err != nil {
			fmt.Fprintln(os.Stderr, "warm:", err)
			os.Exit(1)
		}
		fmt.Println("loaded")
	case "replay":
		cmdReplay(os.Args[2:])
	case "selftest":
		cmdSelftest(os.Args[2:])
	default:
		usage()
	}
}

func envOr(k, d string) string {
	if v := os.Getenv(k); v != "" {
		return v
	}
	return d
}

func cmdList(args []string) {
	P, err := loadProgram(envOr("YQ_REPO", "/repo"), envOr("VERIF_DIR", "/verif"))
	if err != nil {
		fmt.Fprintln(os.Stderr, err)
		os.Exit(2)
	}
	var names []string
	for k := range P.contracts {
		names = append(names, k)
	}
	sort.Strings(names)
	for _, n := range names {
		c := P.getContract(n)
		_, ok := P.funcs[n]
		fmt.Printf("%-60s props=%s found=%v\n", n, strings.Join(c.Props, ","), ok)
	}
}

func cmdVC(args []string) {
	fs := flag.NewFlagSet("vc", flag.ExitOnError)
	mode := fs.String("mode", "safety,functional,frames", "obligation kinds")
	dump := fs.Bool("dump", false, "print the VC text")
	verbose := fs.Bool("v", false, "print solver output of failed obligations")
	timeout := fs.Int("t", 5000, "solver timeout ms")
	only := fs.String("only", "", "substring filter on obligation names")
	keep := fs.String("keep", "", "directory to keep query files in")
	synth := fs.String("synth", "", "verify against a synthesised frame contract: pure|roif|impure[:param,param]")
	target, args := splitTarget(args)
	fs.Parse(args)
	if target == "" {
		usage()
	}
	P, err := loadProgram(envOr("YQ_REPO", "/repo"), envOr("VERIF_DIR", "/verif"))
	if err != nil {
		fmt.Fprintln(os.Stderr, err)
		os.Exit(2)
	}
	fn := P.funcs[target]
	if fn == nil {
		fmt.Fprintln(os.Stderr, "no such function; candidates:")
		for k := range P.funcs {
			if strings.Contains(k, target) {
				fmt.Fprintln(os.Stderr, "  ", k)
			}
		}
		os.Exit(2)
	}
	opts := genOpts{}
	for _, m := range strings.Split(*mode, ",") {
		switch m {
		case "safety":
			opts.safety = true
		case "functional":
			opts.functional = true
		case "frames":
			opts.frames = true
		case "docframe":
			opts.frames, opts.docFrame = true, true
		case "errprop":
			opts.errprop = true
		}
	}
	con := P.contractFor(fn)
	if *synth != "" {
		// install the inferred summaries of everything else first
		fastMode = true
		P.inferFramesWith(P.readonlyHandlers(), 3000, loadFrameOverrides(P.verif))
		fastMode = false
		parts := strings.SplitN(*synth, ":", 2)
		inf := &inferred{fn: fn}
		for _, p := range fn.Params {
			ts := types.TypeString(deref(p.Type()), nil)
			if strings.HasSuffix(ts, "yqlib.Context") && inf.ctxName == "" && p.Name() != "_" {
				inf.ctxName = p.Name()
			}
		}
		if res := fn.Signature.Results(); inf.ctxName != "" && res.Len() == 2 && strings.HasSuffix(types.TypeString(res.At(0).Type(), nil), "yqlib.Context") {
			inf.keepsMode = true
		}
		switch parts[0] {
		case "roif":
			inf.class = clsROIf
		case "impure":
			inf.class = clsImpure
		}
		con = P.synthContract(inf)
		if len(parts) == 2 {
			for _, pn := range strings.Split(parts[1], ",") {
				con.Modifies = append(con.Modifies, &Clause{Kind: "modifies", Text: pn + ".all", Expr: mustParse(pn + ".all")}, &Clause{Kind: "modifies", Text: pn + ".Content[*]", Expr: mustParse(pn + ".Content[STAR]")})
				con.HasMod = true
			}
		}
		P.setContract(P.relName(fn), con)
		opts = genOpts{frames: true, functional: true, assumeTypeAsserts: true}
	}
	vc, err := P.generateFixpoint(fn, con, opts, *timeout)
	if err != nil {
		fmt.Fprintln(os.Stderr, "generation failed:", err)
		os.Exit(2)
	}
	if *dump {
		fmt.Println(P.vcText(vc, -1, ""))
	}
	dir := *keep
	if dir == "" {
		dir, _ = os.MkdirTemp("", "yqv")
		defer os.RemoveAll(dir)
	} else {
		os.MkdirAll(dir, 0o755)
	}
	results := P.discharge(vc.Obls, dir, *timeout, false, *only)
	bad := 0
	for _, r := range results {
		status := "ok"
		if !r.OK {
			status = "FAIL"
			bad++
		}
		fmt.Printf("%-5s %-8s %-7s %5dms  %s  (%s:%d)\n", status, r.Res.Verdict, r.Res.Solver, r.Res.Ms, r.Obl.Name, shortFile(r.Obl.Pos.Filename), r.Obl.Pos.Line)
		if !r.OK && (*dump || *verbose) {
			fmt.Println(truncate(r.Res.Output, 1500))
			if r.Obl.Detail != "" {
				fmt.Println("   " + r.Obl.Detail)
			}
		}
	}
	for _, n := range vc.Notes {
		fmt.Println("note:", n)
	}
	fmt.Printf("%d obligations, %d failed, %d terms\n", len(results), bad, vc.Terms)
}

func shortFile(f string) string {
	if i := strings.LastIndex(f, "/"); i >= 0 {
		return f[i+1:]
	}
	return f
}

// splitTarget takes the first non-flag argument out of args.
func splitTarget(args []string) (string, []string) {
	for i, a := range args {
		if !strings.HasPrefix(a, "-") {
			rest := append(append([]string{}, args[:i]...), args[i+1:]...)
			return a, rest
		}
		if !strings.Contains(a, "=") && i+1 < len(args) && (a == "--mode" || a == "-mode" || a == "--t" || a == "-t" || a == "--only" || a == "-only" || a == "--keep" || a == "-keep" || a == "--tier" || a == "-tier") {
			// flag with a separate value: skip handled by returning later
		}
	}
	return "", args
}
