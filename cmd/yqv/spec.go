package main

// Translation of contract expressions (Go expression syntax, parsed with go/parser) to SMT terms.

import (
	"fmt"
	"go/ast"
	"go/constant"
	"go/token"
	"go/types"
	"strconv"
	"strings"

	"golang.org/x/tools/go/ssa"
)

// sval is a typed spec value: either a Go-typed value (gt != nil) or a value of a pure SMT sort.
type sval struct {
	t    string
	gt   types.Type
	sort string
	nil_ bool // the untyped nil literal
}

type env struct {
	g         *gen
	st        *state
	old       *env
	names     map[string]sval
	lookup    func(name string) (sval, bool)
	results   []sval
	resNames  []string
	lets      map[string]ast.Expr
	phiVal    func(*ssa.Phi) string
	freshBase string // allocation mark that fresh() is relative to (default: function entry)
	letBusy   map[string]bool
}

func (e *env) child() *env {
	n := *e
	n.names = map[string]sval{}
	for k, v := range e.names {
		n.names[k] = v
	}
	return &n
}

func (g *gen) goVal(t string, ty types.Type) sval {
	return sval{t: t, gt: ty, sort: g.sorts.sortOf(ty)}
}

var tInt = types.Typ[types.Int]
var tBool = types.Typ[types.Bool]
var tString = types.Typ[types.String]

func (g *gen) specFail(x ast.Node, format string, a ...interface{}) {
	g.fail("contract expression %s: %s", exprString(x), fmt.Sprintf(format, a...))
}

func exprString(x ast.Node) string {
	var b strings.Builder
	_ = printerFprint(&b, x)
	return b.String()
}

// entryEnv: names resolve to parameters; heap is the entry heap.
func (g *gen) entryEnv(st *state) *env {
	e := &env{g: g, st: st, names: map[string]sval{}}
	for name, p := range g.params {
		if _, isFV := p.(*ssa.FreeVar); isFV {
			continue
		}
		e.names[name] = g.goVal(g.vals[p], p.Type())
	}
	if g.con != nil {
		e.lets = g.con.Lets
	}
	e.lookup = func(name string) (sval, bool) { return g.lookupCommon(e, name) }
	e.old = e
	return e
}

func (g *gen) lookupCommon(e *env, name string) (sval, bool) {
	if srt, ok := fileGhosts[name]; ok {
		gt := sortGoType(srt)
		if fileGhostTypes[name] == "list" {
			gt = g.P.listPtr()
		}
		return sval{t: g.heapVar(e.st, "GHOST."+name, srt), sort: srt, gt: gt}, true
	}
	if g.con != nil {
		for _, gh := range g.con.Ghosts {
			if gh == name {
				c := "ghost." + name
				g.declare(c, "Int")
				return sval{t: c, gt: tInt, sort: "Int"}, true
			}
		}
	}
	// free variables of closures: the captured variable's current content
	if p, ok := g.params[name]; ok {
		if fv, isFV := p.(*ssa.FreeVar); isFV {
			l := g.locs[fv]
			return g.goVal(g.load(e.st, l), l.vtype), true
		}
	}
	// package scope
	if g.fn.Pkg != nil {
		if obj := g.fn.Pkg.Pkg.Scope().Lookup(name); obj != nil {
			switch o := obj.(type) {
			case *types.Const:
				return g.constVal(o.Val(), o.Type()), true
			case *types.Var:
				if gl, ok := g.fn.Pkg.Members[name].(*ssa.Global); ok {
					v, _ := g.globalVar(e.st, gl)
					return g.goVal(v, o.Type()), true
				}
			}
		}
	}
	return sval{}, false
}

func (g *gen) constVal(v constant.Value, t types.Type) sval {
	switch v.Kind() {
	case constant.Bool:
		return sval{t: boolLit(constant.BoolVal(v)), gt: tBool, sort: "Bool"}
	case constant.String:
		return sval{t: strLit(constant.StringVal(v)), gt: t, sort: "String"}
	case constant.Int:
		bi, _ := new(bigInt).SetString(v.ExactString(), 10)
		return sval{t: bigLit(bi), gt: t, sort: "Int"}
	case constant.Float:
		f, _ := constant.Float64Val(v)
		return sval{t: floatLit(f), gt: t, sort: "Real"}
	}
	return sval{t: "0", gt: t, sort: "Int"}
}

func (e *env) resolve(name string) (sval, bool) {
	if v, ok := e.names[name]; ok {
		return v, true
	}
	if e.lookup != nil {
		return e.lookup(name)
	}
	return sval{}, false
}

func (g *gen) specBool(e *env, x ast.Expr) string {
	v := g.spec(e, x)
	if v.sort != "Bool" {
		g.specFail(x, "expected a boolean, got sort %s", v.sort)
	}
	return v.t
}

func (g *gen) spec(e *env, x ast.Expr) sval {
	switch n := x.(type) {
	case *ast.ParenExpr:
		return g.spec(e, n.X)
	case *ast.BasicLit:
		switch n.Kind {
		case token.INT:
			bi, ok := new(bigInt).SetString(n.Value, 0)
			if !ok {
				g.specFail(x, "bad integer")
			}
			return sval{t: bigLit(bi), gt: tInt, sort: "Int"}
		case token.FLOAT:
			f, _ := strconv.ParseFloat(n.Value, 64)
			return sval{t: floatLit(f), gt: types.Typ[types.Float64], sort: "Real"}
		case token.STRING:
			s, err := strconv.Unquote(n.Value)
			if err != nil {
				g.specFail(x, "bad string")
			}
			return sval{t: strLit(s), gt: tString, sort: "String"}
		case token.CHAR:
			s, _, _, err := strconv.UnquoteChar(n.Value[1:len(n.Value)-1], '\'')
			if err != nil {
				g.specFail(x, "bad char")
			}
			return sval{t: intLit(int64(s)), gt: tInt, sort: "Int"}
		}
	case *ast.Ident:
		switch n.Name {
		case "true", "false":
			return sval{t: n.Name, gt: tBool, sort: "Bool"}
		case "nil":
			return sval{nil_: true, t: "0", sort: "Int"}
		case "result":
			if v, ok := e.resolve(n.Name); ok {
				return v // a parameter or local named result
			}
			if len(e.results) == 0 {
				g.specFail(x, "no result here")
			}
			return e.results[0]
		}
		if strings.HasPrefix(n.Name, "result") {
			if i, err := strconv.Atoi(n.Name[6:]); err == nil && i < len(e.results) {
				return e.results[i]
			}
		}
		for i, rn := range e.resNames {
			if rn == n.Name && i < len(e.results) {
				return e.results[i]
			}
		}
		if v, ok := e.resolve(n.Name); ok {
			return v
		}
		if le, ok := e.lets[n.Name]; ok {
			if e.letBusy == nil {
				e.letBusy = map[string]bool{}
			}
			if e.letBusy[n.Name] {
				g.specFail(x, "recursive let")
			}
			e.letBusy[n.Name] = true
			v := g.spec(e, le)
			delete(e.letBusy, n.Name)
			return v
		}
		if c, ok := g.P.specConsts[n.Name]; ok {
			return sval{t: n.Name, sort: c}
		}
		g.specFail(x, "unknown identifier %q", n.Name)
	case *ast.UnaryExpr:
		v := g.spec(e, n.X)
		switch n.Op {
		case token.NOT:
			return sval{t: sNot(v.t), gt: tBool, sort: "Bool"}
		case token.SUB:
			return sval{t: app("-", v.t), gt: v.gt, sort: v.sort}
		}
	case *ast.StarExpr:
		v := g.spec(e, n.X)
		if p, ok := v.gt.Underlying().(*types.Pointer); ok {
			if _, isStruct := p.Elem().Underlying().(*types.Struct); isStruct {
				return g.goVal(g.loadStruct(e.st, v.t, p.Elem()), p.Elem())
			}
			h, _ := g.cellArr(e.st, p.Elem())
			return g.goVal(app("select", h, v.t), p.Elem())
		}
	case *ast.BinaryExpr:
		return g.specBinary(e, n)
	case *ast.SelectorExpr:
		// package-qualified constant?
		if id, ok := n.X.(*ast.Ident); ok {
			if _, found := e.resolve(id.Name); !found && e.lets[id.Name] == nil {
				if v, ok := g.qualified(e, id.Name, n.Sel.Name); ok {
					return v
				}
			}
		}
		v := g.spec(e, n.X)
		return g.specField(e, x, v, n.Sel.Name)
	case *ast.IndexExpr:
		v := g.spec(e, n.X)
		i := g.spec(e, n.Index)
		return g.specIndex(e, x, v, i)
	case *ast.SliceExpr:
		v := g.spec(e, n.X)
		lo := "0"
		if n.Low != nil {
			lo = g.spec(e, n.Low).t
		}
		var hi string
		if n.High != nil {
			hi = g.spec(e, n.High).t
		}
		if v.sort == "String" {
			if hi == "" {
				hi = app("str.len", v.t)
			}
			return sval{t: app("str.substr", v.t, lo, app("-", hi, lo)), gt: v.gt, sort: "String"}
		}
		if v.sort == "Slice" {
			if hi == "" {
				hi = app("s.len", v.t)
			}
			return sval{t: app("mk-slice", app("s.base", v.t), app("+", app("s.off", v.t), lo), app("-", hi, lo)), gt: v.gt, sort: "Slice"}
		}
	case *ast.TypeAssertExpr:
		v := g.spec(e, n.X)
		t := g.resolveType(n.Type)
		if t == nil {
			g.specFail(x, "unknown type")
		}
		return g.goVal(g.sorts.unbox(t, app("i.val", v.t)), t)
	case *ast.CallExpr:
		return g.specCall(e, n)
	}
	g.specFail(x, "unsupported expression form %T", x)
	return sval{}
}

func (g *gen) qualified(e *env, pkg, name string) (sval, bool) {
	for _, imp := range g.fn.Pkg.Pkg.Imports() {
		if imp.Name() == pkg {
			if obj := imp.Scope().Lookup(name); obj != nil {
				if c, ok := obj.(*types.Const); ok {
					return g.constVal(c.Val(), c.Type()), true
				}
			}
		}
	}
	return sval{}, false
}

func (g *gen) resolveType(x ast.Expr) types.Type {
	switch n := x.(type) {
	case *ast.StarExpr:
		if t := g.resolveType(n.X); t != nil {
			return types.NewPointer(t)
		}
	case *ast.Ident:
		if obj := g.fn.Pkg.Pkg.Scope().Lookup(n.Name); obj != nil {
			if tn, ok := obj.(*types.TypeName); ok {
				return tn.Type()
			}
		}
		if obj := types.Universe.Lookup(n.Name); obj != nil {
			if tn, ok := obj.(*types.TypeName); ok {
				return tn.Type()
			}
		}
	case *ast.SelectorExpr:
		if id, ok := n.X.(*ast.Ident); ok {
			for _, imp := range g.fn.Pkg.Pkg.Imports() {
				if imp.Name() == id.Name {
					if obj := imp.Scope().Lookup(n.Sel.Name); obj != nil {
						if tn, ok := obj.(*types.TypeName); ok {
							return tn.Type()
						}
					}
				}
			}
		}
	case *ast.ArrayType:
		if n.Len == nil {
			if t := g.resolveType(n.Elt); t != nil {
				return types.NewSlice(t)
			}
		}
	case *ast.InterfaceType:
		return types.NewInterfaceType(nil, nil)
	}
	return nil
}

func (g *gen) loadStruct(st *state, ref string, t types.Type) string {
	s := t.Underlying().(*types.Struct)
	srt := g.sorts.sortOf(t)
	args := make([]string, s.NumFields())
	for i := range args {
		h, _ := g.fieldArr(st, t, i)
		args[i] = app("select", h, ref)
	}
	if len(args) == 0 {
		return "mk." + srt
	}
	return app("mk."+srt, args...)
}

func (g *gen) specField(e *env, x ast.Expr, v sval, name string) sval {
	if v.gt == nil {
		// accessor on a spec datatype
		return sval{t: app(name, v.t), sort: g.P.specAccessor(name)}
	}
	if isListPtr(v.gt) {
		switch name {
		case "len":
			return sval{t: g.listLen(e.st, v.t), gt: tInt, sort: "Int"}
		}
	}
	t := v.gt
	isPtr := false
	if p, ok := t.Underlying().(*types.Pointer); ok {
		t = p.Elem()
		isPtr = true
	}
	st, ok := t.Underlying().(*types.Struct)
	if !ok {
		g.specFail(x, "selector on non-struct %s", v.gt)
	}
	for i := 0; i < st.NumFields(); i++ {
		if st.Field(i).Name() == name {
			ft := st.Field(i).Type()
			if isPtr {
				h, _ := g.fieldArr(e.st, t, i)
				return g.goVal(app("select", h, v.t), ft)
			}
			return g.goVal(app(g.sorts.fieldAcc(g.sorts.sortOf(t), i), v.t), ft)
		}
	}
	g.specFail(x, "no field %s in %s", name, t)
	return sval{}
}

func isMapType(t types.Type) bool {
	_, ok := t.Underlying().(*types.Map)
	return ok
}

func (g *gen) specIndex(e *env, x ast.Expr, v, i sval) sval {
	switch {
	case v.sort == "String":
		return sval{t: app("str.to_code", app("str.at", v.t, i.t)), gt: types.Typ[types.Uint8], sort: "Int"}
	case v.sort == "Slice" && v.gt != nil:
		et := v.gt.Underlying().(*types.Slice).Elem()
		h, _ := g.elemArr(e.st, et)
		return g.goVal(app("select", app("select", h, app("s.base", v.t)), addOff(app("s.off", v.t), i.t)), et)
	case v.gt != nil && isMapType(v.gt):
		// m[k]: the value stored under k, the zero value when absent (or the map is nil)
		mt := v.gt.Underlying().(*types.Map)
		if vals, present, ok := g.mapHeaps(e.st, mt); ok {
			in := sAnd(sNot(sEq(v.t, "0")), app("select", app("select", present, v.t), i.t))
			return g.goVal(sIte(in, app("select", app("select", vals, v.t), i.t), g.sorts.zero(mt.Elem())), mt.Elem())
		}
	case strings.HasPrefix(v.sort, "(Array "):
		// spec-level array
		return sval{t: app("select", v.t, i.t), sort: arrayRange(v.sort)}
	}
	g.specFail(x, "cannot index sort %s", v.sort)
	return sval{}
}

func arrayRange(s string) string {
	// "(Array Int X)" -> X
	s = strings.TrimPrefix(s, "(Array ")
	s = strings.TrimSuffix(s, ")")
	// skip domain sort
	d := 0
	for i := 0; i < len(s); i++ {
		switch s[i] {
		case '(':
			d++
		case ')':
			d--
		case ' ':
			if d == 0 {
				return s[i+1:]
			}
		}
	}
	return s
}

func (g *gen) specBinary(e *env, n *ast.BinaryExpr) sval {
	if n.Op == token.LAND || n.Op == token.LOR {
		a, b := g.specBool(e, n.X), g.specBool(e, n.Y)
		if n.Op == token.LAND {
			return sval{t: sAnd(a, b), gt: tBool, sort: "Bool"}
		}
		return sval{t: sOr(a, b), gt: tBool, sort: "Bool"}
	}
	a, b := g.spec(e, n.X), g.spec(e, n.Y)
	switch n.Op {
	case token.EQL, token.NEQ:
		eq := g.specEq(n, a, b)
		if n.Op == token.NEQ {
			eq = sNot(eq)
		}
		return sval{t: eq, gt: tBool, sort: "Bool"}
	case token.LSS, token.LEQ, token.GTR, token.GEQ:
		op := map[token.Token]string{token.LSS: "<", token.LEQ: "<=", token.GTR: ">", token.GEQ: ">="}[n.Op]
		if a.sort == "String" {
			var t string
			switch n.Op {
			case token.LSS:
				t = app("str.<", a.t, b.t)
			case token.LEQ:
				t = app("str.<=", a.t, b.t)
			case token.GTR:
				t = app("str.<", b.t, a.t)
			case token.GEQ:
				t = app("str.<=", b.t, a.t)
			}
			return sval{t: t, gt: tBool, sort: "Bool"}
		}
		a, b = numUnify(a, b)
		return sval{t: app(op, a.t, b.t), gt: tBool, sort: "Bool"}
	case token.ADD:
		if a.sort == "String" {
			return sval{t: app("str.++", a.t, b.t), gt: a.gt, sort: "String"}
		}
		a, b = numUnify(a, b)
		return sval{t: app("+", a.t, b.t), gt: a.gt, sort: a.sort}
	case token.SUB:
		a, b = numUnify(a, b)
		return sval{t: app("-", a.t, b.t), gt: a.gt, sort: a.sort}
	case token.MUL:
		a, b = numUnify(a, b)
		return sval{t: app("*", a.t, b.t), gt: a.gt, sort: a.sort}
	case token.QUO:
		if a.sort == "Real" || b.sort == "Real" {
			a, b = numUnify(a, b)
			return sval{t: app("/", a.t, b.t), gt: a.gt, sort: "Real"}
		}
		return sval{t: app("tdiv", a.t, b.t), gt: a.gt, sort: "Int"}
	case token.REM:
		return sval{t: app("tmod", a.t, b.t), gt: a.gt, sort: "Int"}
	}
	g.specFail(n, "unsupported operator %s", n.Op)
	return sval{}
}

func numUnify(a, b sval) (sval, sval) {
	if a.sort == "Real" && b.sort == "Int" {
		b = sval{t: app("to_real", b.t), gt: a.gt, sort: "Real"}
	} else if a.sort == "Int" && b.sort == "Real" {
		a = sval{t: app("to_real", a.t), gt: b.gt, sort: "Real"}
	}
	return a, b
}

func (g *gen) specEq(n ast.Node, a, b sval) string {
	if a.nil_ && b.nil_ {
		return "true"
	}
	if b.nil_ {
		a, b = b, a
	}
	if a.nil_ {
		switch b.sort {
		case "Slice":
			return sEq(app("s.base", b.t), "0")
		case "Iface":
			return sEq(app("i.typ", b.t), "0")
		case "Int":
			return sEq(b.t, "0")
		}
		g.specFail(n, "nil compared with sort %s", b.sort)
	}
	if a.sort != b.sort {
		if (a.sort == "Real" && b.sort == "Int") || (a.sort == "Int" && b.sort == "Real") {
			a, b = numUnify(a, b)
		} else if a.sort == "Iface" && b.gt != nil {
			b = sval{t: app("mk-iface", g.sorts.typeTag(b.gt), g.sorts.box(b.gt, b.t)), sort: "Iface"}
		} else if b.sort == "Iface" && a.gt != nil {
			a = sval{t: app("mk-iface", g.sorts.typeTag(a.gt), g.sorts.box(a.gt, a.t)), sort: "Iface"}
		} else {
			g.specFail(n, "comparison of sorts %s and %s", a.sort, b.sort)
		}
	}
	return sEq(a.t, b.t)
}

func isListPtr(t types.Type) bool {
	if t == nil {
		return false
	}
	return types.TypeString(t, nil) == "*container/list.List"
}

func (g *gen) specCall(e *env, n *ast.CallExpr) sval {
	name := ""
	switch f := n.Fun.(type) {
	case *ast.Ident:
		name = f.Name
	case *ast.SelectorExpr:
		if id, ok := f.X.(*ast.Ident); ok {
			name = id.Name + "." + f.Sel.Name
		}
	}
	arg := func(i int) sval { return g.spec(e, n.Args[i]) }
	bvar := func(i int) string {
		id, ok := n.Args[i].(*ast.Ident)
		if !ok {
			g.specFail(n, "bound variable must be an identifier")
		}
		return id.Name
	}
	switch name {
	case "len":
		v := arg(0)
		switch {
		case v.sort == "String":
			return sval{t: app("str.len", v.t), gt: tInt, sort: "Int"}
		case v.sort == "Slice":
			return sval{t: app("s.len", v.t), gt: tInt, sort: "Int"}
		case isListPtr(v.gt):
			return sval{t: g.listLen(e.st, v.t), gt: tInt, sort: "Int"}
		}
		g.specFail(n, "len of sort %s", v.sort)
	case "calls":
		// calls(NAME): how many calls named NAME this function has executed so far (ghost)
		id, ok := n.Args[0].(*ast.Ident)
		if !ok {
			g.specFail(n, "calls(NAME)")
		}
		h := "GHOST.calls." + id.Name
		if v, ok := e.st.heap[h]; ok {
			return sval{t: v, gt: tInt, sort: "Int"}
		}
		return sval{t: "0", gt: tInt, sort: "Int"}
	case "callsHere":
		// callsHere(NAME): how many calls named NAME were executed since the innermost enclosing loop was entered
		// (ghost: the call counter minus its value when that loop began)
		id, ok := n.Args[0].(*ast.Ident)
		if !ok {
			g.specFail(n, "callsHere(NAME)")
		}
		var best *loopInfo
		for _, li := range g.loops {
			if li.body[g.curBlock] && (best == nil || len(li.body) < len(best.body)) {
				best = li
			}
		}
		if best == nil {
			g.specFail(n, "callsHere(): no loop here")
		}
		cur := "0"
		if v, ok := e.st.heap["GHOST.calls."+id.Name]; ok {
			cur = v
		}
		return sval{t: app("-", cur, g.heapVar(e.st, fmt.Sprintf("ITER.c0.%d.%s", best.ordinal, id.Name), "Int")), gt: tInt, sort: "Int"}
	case "resultOf":
		// resultOf(NAME): the (first) result of the latest call named NAME this function has executed (ghost;
		// unconstrained on a path without such a call)
		id, ok := n.Args[0].(*ast.Ident)
		if !ok || g.resultNamed[id.Name] == nil {
			g.specFail(n, "resultOf(NAME): no call of that name returns a value here")
		}
		ty := g.resultNamed[id.Name]
		return g.goVal(g.heapVar(e.st, "GHOST.result."+id.Name, g.sorts.sortOf(ty)), ty)
	case "allnodes":
		// allnodes(n, body): body holds for every allocated document node n (n ranges over *CandidateNode)
		if len(n.Args) != 2 {
			g.specFail(n, "allnodes(n, body)")
		}
		ce := e.child()
		v := bvar(0)
		bn := "q." + v + "." + fmt.Sprint(g.nextQ())
		ce.names[v] = sval{t: bn, gt: g.P.candidateNodePtr(), sort: "Int"}
		b := g.specBool(ce, n.Args[1])
		inner := sImp(sAnd(app("<", "0", bn), app("<=", bn, e.st.top)), b)
		if pats := inferPatterns(b, []string{bn}); len(pats) > 0 {
			var ps strings.Builder
			for _, p := range pats {
				ps.WriteString(" :pattern (" + p + ")")
			}
			inner = "(! " + inner + ps.String() + ")"
		}
		return sval{t: fmt.Sprintf("(forall ((%s Int)) %s)", bn, inner), gt: tBool, sort: "Bool"}
	case "forall", "exists":
		ce := e.child()
		var vars []string
		var body ast.Expr
		var rng []string
		switch len(n.Args) {
		case 2:
			vars = []string{bvar(0)}
			body = n.Args[1]
		case 4:
			vars = []string{bvar(0)}
			body = n.Args[3]
		default:
			g.specFail(n, "forall(i, body) or forall(i, lo, hi, body)")
		}
		var binders []string
		for _, v := range vars {
			bn := "q." + v + "." + fmt.Sprint(g.nextQ())
			ce.names[v] = sval{t: bn, gt: tInt, sort: "Int"}
			binders = append(binders, "("+bn+" Int)")
			if len(n.Args) == 4 {
				lo, hi := g.spec(e, n.Args[1]), g.spec(e, n.Args[2])
				rng = append(rng, app("<=", lo.t, bn), app("<", bn, hi.t))
			}
		}
		b := g.specBool(ce, body)
		var bvs []string
		for _, v := range vars {
			bvs = append(bvs, ce.names[v].t)
		}
		if name == "forall" {
			inner := sImp(sAnd(rng...), b)
			if pats := inferPatterns(b, bvs); len(pats) > 0 {
				var ps strings.Builder
				for _, p := range pats {
					ps.WriteString(" :pattern (" + p + ")")
				}
				inner = "(! " + inner + ps.String() + ")"
			}
			return sval{t: fmt.Sprintf("(forall (%s) %s)", strings.Join(binders, " "), inner), gt: tBool, sort: "Bool"}
		}
		return sval{t: fmt.Sprintf("(exists (%s) %s)", strings.Join(binders, " "), sAnd(append(rng, b)...)), gt: tBool, sort: "Bool"}
	case "implies":
		return sval{t: sImp(g.specBool(e, n.Args[0]), g.specBool(e, n.Args[1])), gt: tBool, sort: "Bool"}
	case "iff":
		return sval{t: sEq(g.specBool(e, n.Args[0]), g.specBool(e, n.Args[1])), gt: tBool, sort: "Bool"}
	case "ite":
		c := g.specBool(e, n.Args[0])
		a, b := arg(1), arg(2)
		return sval{t: sIte(c, a.t, b.t), gt: a.gt, sort: a.sort}
	case "old":
		if e.old == nil {
			g.specFail(n, "old() not available here")
		}
		oe := e.old.child()
		for k, v := range e.names {
			if strings.HasPrefix(v.t, "q.") {
				oe.names[k] = v
			}
		}
		return g.spec(oe, n.Args[0])
	case "fresh":
		v := arg(0)
		base := g.top0
		if e.freshBase != "" {
			base = e.freshBase
		}
		return sval{t: sAnd(app(">", v.t, base)), gt: tBool, sort: "Bool"}
	case "freshSlice":
		// the backing array of the slice was allocated by this call (or the slice is nil)
		v := arg(0)
		base := g.top0
		if e.freshBase != "" {
			base = e.freshBase
		}
		return sval{t: sOr(sEq(app("s.base", v.t), "0"), app(">", app("s.base", v.t), base)), gt: tBool, sort: "Bool"}
	case "allocated":
		v := arg(0)
		return sval{t: sAnd(app("<=", v.t, e.st.top)), gt: tBool, sort: "Bool"}
	case "preexisting":
		// allocated before the function (at a call site: before the call) began
		v := arg(0)
		base := g.top0
		if e.freshBase != "" {
			base = e.freshBase
		}
		return sval{t: sAnd(app("<=", v.t, base), app(">", v.t, "0")), gt: tBool, sort: "Bool"}
	case "int", "int64", "uint", "rune", "byte", "int32", "uint32", "uint64":
		v := arg(0)
		if obj, ok := types.Universe.Lookup(name).(*types.TypeName); ok && v.sort == "Int" {
			v.gt = obj.Type() // the Go type matters when the value is boxed into an interface
		}
		return v
	case "float64":
		v := arg(0)
		if v.sort == "Int" {
			return sval{t: app("to_real", v.t), gt: types.Typ[types.Float64], sort: "Real"}
		}
		return v
	case "listAt":
		l, i := arg(0), arg(1)
		return sval{t: g.listAt(e.st, l.t, i.t), gt: types.NewInterfaceType(nil, nil), sort: "Iface"}
	case "nodeAt":
		l, i := arg(0), arg(1)
		t := g.P.candidateNodePtr()
		return g.goVal(app("i.val", g.listAt(e.st, l.t, i.t)), t)
	case "isNode":
		v := arg(0)
		return sval{t: sEq(app("i.typ", v.t), g.sorts.typeTag(g.P.candidateNodePtr())), gt: tBool, sort: "Bool"}
	case "istype":
		v := arg(0)
		t := g.resolveType(n.Args[1])
		if t == nil {
			g.specFail(n, "unknown type")
		}
		return sval{t: sEq(app("i.typ", v.t), g.sorts.typeTag(t)), gt: tBool, sort: "Bool"}
	case "iface":
		v := arg(0)
		if v.gt == nil {
			g.specFail(n, "iface() of a spec value")
		}
		return sval{t: app("mk-iface", g.sorts.typeTag(v.gt), g.sorts.box(v.gt, v.t)), gt: types.NewInterfaceType(nil, nil), sort: "Iface"}
	case "strings.HasPrefix":
		return sval{t: app("str.prefixof", arg(1).t, arg(0).t), gt: tBool, sort: "Bool"}
	case "strings.HasSuffix":
		return sval{t: app("str.suffixof", arg(1).t, arg(0).t), gt: tBool, sort: "Bool"}
	case "strings.Contains":
		return sval{t: app("str.contains", arg(0).t, arg(1).t), gt: tBool, sort: "Bool"}
	case "sbContent":
		v := arg(0)
		return sval{t: app("select", g.heapVar(e.st, sbHeap, sbSort), v.t), sort: "RSeq"}
	case "errflag":
		return sval{t: g.errFlag, gt: tBool, sort: "Bool"}
	case "iter":
		// ghost: number of completed iterations of the innermost enclosing loop
		var best *loopInfo
		for _, li := range g.loops {
			if li.body[g.curBlock] && (best == nil || len(li.body) < len(best.body)) {
				best = li
			}
		}
		if best == nil {
			g.specFail(n, "iter(): no loop here")
		}
		return sval{t: g.heapVar(e.st, fmt.Sprintf("ITER.%d", best.ordinal), "Int"), gt: tInt, sort: "Int"}
	case "rangeidx":
		// number of completed iterations of the innermost range-over-slice loop (its hidden index + 1)
		var best *loopInfo
		for _, li := range g.loops {
			if li.body[g.curBlock] && (best == nil || len(li.body) < len(best.body)) {
				for _, in := range li.header.Instrs {
					if p, ok := in.(*ssa.Phi); ok && p.Comment == "rangeindex" {
						best = li
					}
				}
			}
		}
		if best == nil {
			g.specFail(n, "rangeidx(): no range loop here")
		}
		for _, in := range best.header.Instrs {
			if p, ok := in.(*ssa.Phi); ok && p.Comment == "rangeindex" {
				return sval{t: app("+", g.phiIn(e, p), "1"), gt: tInt, sort: "Int"}
			}
		}
	case "rangepos":
		return sval{t: g.rangePos(e), gt: tInt, sort: "Int"}
	case "heapEq":
		// heapEq(Type.Field): the field array is unchanged since entry
		sel, ok := n.Args[0].(*ast.SelectorExpr)
		if !ok {
			g.specFail(n, "heapEq(Type.Field)")
		}
		t := g.resolveType(sel.X)
		if t == nil {
			g.specFail(n, "heapEq: unknown type")
		}
		st := t.Underlying().(*types.Struct)
		for i := 0; i < st.NumFields(); i++ {
			if st.Field(i).Name() == sel.Sel.Name {
				a, _ := g.fieldArr(e.st, t, i)
				b, _ := g.fieldArr(e.old.st, t, i)
				return sval{t: sEq(a, b), gt: tBool, sort: "Bool"}
			}
		}
		g.specFail(n, "heapEq: no such field")
	}
	// contract-file predicate (macro)
	if pr, ok := filePreds[name]; ok {
		if len(pr.Params) != len(n.Args) {
			g.specFail(n, "%s expects %d arguments", name, len(pr.Params))
		}
		ce := e.child()
		for i, pn := range pr.Params {
			ce.names[pn] = arg(i)
		}
		return g.spec(ce, pr.Expr)
	}
	// spec-library function
	if sig, ok := g.P.specFuncs[name]; ok {
		if len(sig.args) != len(n.Args) {
			g.specFail(n, "%s expects %d arguments", name, len(sig.args))
		}
		args := make([]string, len(n.Args))
		for i := range n.Args {
			v := arg(i)
			if v.nil_ {
				v.sort = "Int"
			}
			if v.sort != sig.args[i] {
				if v.sort == "Int" && sig.args[i] == "Real" {
					v.t = app("to_real", v.t)
				} else {
					g.specFail(n, "%s argument %d has sort %s, want %s", name, i, v.sort, sig.args[i])
				}
			}
			args[i] = v.t
		}
		g.useSpec(name)
		return sval{t: app(name, args...), sort: sig.ret, gt: sortGoType(sig.ret)}
	}
	g.specFail(n, "unknown function %q", name)
	return sval{}
}

func sortGoType(s string) types.Type {
	switch s {
	case "Int":
		return tInt
	case "Bool":
		return tBool
	case "String":
		return tString
	case "Real":
		return types.Typ[types.Float64]
	}
	return nil
}

func (g *gen) nextQ() int { g.n++; return g.n }

func (g *gen) useSpec(name string) {
	if name == "sprintv" {
		g.needSprintv()
	}
}
