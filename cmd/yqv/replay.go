package main

// Replay of solver counterexamples against the real code: a contract's `replay` template is an
// in-package Go test body with $str(e) / $int(e) / $bool(e) placeholders over contract expressions.
// The model values are fetched with (get-value ...), substituted, and the test is injected with
// `go test -overlay` (nothing is written under /repo).

import (
	"bytes"
	"context"
	"encoding/json"
	"fmt"
	"os"
	"os/exec"
	"path/filepath"
	"regexp"
	"sort"
	"strconv"
	"strings"
	"time"
)

var placeholderRe = regexp.MustCompile(`\$(str|int|bool|itoa|real)\(`)

type replayTerm struct {
	Kind string
	Expr string
	Term string
}

// prepareReplay evaluates the placeholders of the contract's replay template in the entry environment.
func (g *gen) prepareReplay() {
	if g.con == nil || len(g.con.Replay) == 0 {
		return
	}
	e := g.entryEnv(g.entry)
	text := strings.Join(g.con.Replay, "\n")
	for _, ph := range findPlaceholders(text) {
		x, err := parseExprString(ph.Expr)
		if err != nil {
			g.fail("replay template: %s: %v", ph.Expr, err)
		}
		v := g.spec(e, x)
		g.vc.Replay = append(g.vc.Replay, replayTerm{Kind: ph.Kind, Expr: ph.Expr, Term: v.t})
	}
	g.vc.ReplayTemplate = text
}

type placeholder struct {
	Kind, Expr string
	Start, End int
}

func findPlaceholders(text string) []placeholder {
	var out []placeholder
	for _, m := range placeholderRe.FindAllStringSubmatchIndex(text, -1) {
		kind := text[m[2]:m[3]]
		i := m[1]
		d := 1
		j := i
		inStr := false
		for ; j < len(text) && d > 0; j++ {
			c := text[j]
			if inStr {
				if c == '\\' {
					j++
				} else if c == '"' {
					inStr = false
				}
				continue
			}
			switch c {
			case '"':
				inStr = true
			case '(':
				d++
			case ')':
				d--
			}
		}
		out = append(out, placeholder{Kind: kind, Expr: text[i : j-1], Start: m[0], End: j})
	}
	return out
}

func (P *Program) tryReplay(r *oblResult, dir string) (string, bool) {
	vc := r.Obl.vc
	if vc == nil || vc.ReplayTemplate == "" {
		return "", false
	}
	// 1. model values
	var q strings.Builder
	q.WriteString("(set-option :produce-models true)\n")
	q.WriteString(P.queryFor(r.Obl, false))
	var terms []string
	for _, t := range vc.Replay {
		terms = append(terms, t.Term)
	}
	if len(terms) > 0 {
		q.WriteString("(get-value (" + strings.Join(terms, " ") + "))\n")
	}
	f := filepath.Join(dir, "replay."+sanitizeFile(r.Obl.Name)+".smt2")
	os.WriteFile(f, []byte(q.String()), 0o644)
	var out []byte
	for _, s := range []string{"z3-new", "z3"} {
		ctx, cancel := context.WithTimeout(context.Background(), 20*time.Second)
		o, _ := exec.CommandContext(ctx, s, "-t:15000", f).CombinedOutput()
		cancel()
		if strings.Contains(string(o), "sat") && !strings.HasPrefix(strings.TrimSpace(string(o)), "unsat") && !strings.HasPrefix(strings.TrimSpace(string(o)), "unknown") {
			out = o
			break
		}
	}
	if out == nil {
		return "model extraction failed (no solver returned a model)\n", false
	}
	vals := parseGetValue(string(out), len(terms))
	if vals == nil {
		return "model extraction failed:\n" + truncate(string(out), 2000), false
	}
	// 2. instantiate the template
	text := vc.ReplayTemplate
	phs := findPlaceholders(text)
	var b strings.Builder
	last := 0
	var inputs []string
	for i, ph := range phs {
		b.WriteString(text[last:ph.Start])
		v := vals[i]
		var lit string
		switch ph.Kind {
		case "str":
			lit = strconv.Quote(smtStringToGo(v))
		case "int":
			lit = smtIntToGo(v)
		case "itoa":
			lit = strconv.Quote(smtIntToGo(v))
		case "bool":
			lit = v
		case "real":
			lit = smtRealToGo(v)
		}
		inputs = append(inputs, ph.Expr+" = "+lit)
		b.WriteString(lit)
		last = ph.End
	}
	b.WriteString(text[last:])
	body := b.String()
	report, failing := P.runReplayTest(vc.Pkg, body, dir, r.Obl.Name)
	return "counterexample: " + strings.Join(inputs, "; ") + "\n\n" + report, failing
}

// runReplayTest injects a test into the package through an overlay and runs it. failing = the real code
// misbehaves on the input (test fails or panics).
func (P *Program) runReplayTest(pkgPath, body, dir, oblName string) (string, bool) {
	pkgDir := "pkg/yqlib"
	pkgName := "yqlib"
	switch pkgPath {
	case yqModule + "/cmd":
		pkgDir, pkgName = "cmd", "cmd"
	case yqModule:
		pkgDir, pkgName = ".", "main"
	}
	src := "package " + pkgName + "\n\nimport (\n\t\"testing\"\n\t\"fmt\"\n\t\"math/big\"\n\t\"strings\"\n\t\"os\"\n\t\"io\"\n)\n\nvar _ = fmt.Sprint\nvar _ = big.NewInt\nvar _ = strings.Contains\nvar _ = os.Getenv\nvar _ = io.Discard\n\n" +
		"func TestVerifReplay(t *testing.T) {\n" + body + "\n}\n"
	testFile := filepath.Join(dir, "zz_verif_replay_"+fmt.Sprint(hashString(oblName))+"_test.go")
	os.WriteFile(testFile, []byte(src), 0o644)
	target := filepath.Join(P.repo, pkgDir, "zz_verif_replay_test.go")
	ov := map[string]map[string]string{"Replace": {target: testFile}}
	ovData, _ := json.Marshal(ov)
	ovFile := filepath.Join(dir, "overlay_"+fmt.Sprint(hashString(oblName))+".json")
	os.WriteFile(ovFile, ovData, 0o644)
	ctx, cancel := context.WithTimeout(context.Background(), 900*time.Second)
	defer cancel()
	cmd := exec.CommandContext(ctx, "go", "test", "-overlay", ovFile, "-vet=off", "-count=1", "-timeout", "60s", "-run", "^TestVerifReplay$", "./"+pkgDir)
	cmd.Dir = P.repo
	cmd.Env = append(os.Environ(), "GOFLAGS=-mod=mod", "GOPROXY=off", "GOSUMDB=off", "GOTOOLCHAIN=local")
	var out bytes.Buffer
	cmd.Stdout = &out
	cmd.Stderr = &out
	err := cmd.Run()
	rep := "test body:\n" + body + "\n\ngo test output:\n" + truncate(out.String(), 4000) + "\n"
	if err == nil {
		return rep + "replay PASSED on the real code: the counterexample does not reproduce (abstraction artefact or weak contract)\n", false
	}
	if strings.Contains(out.String(), "[build failed]") || strings.Contains(out.String(), "[setup failed]") {
		return rep + "replay could not be built\n", false
	}
	return rep + "replay FAILED on the real code: the input above violates the obligation\n", true
}

func parseGetValue(out string, n int) []string {
	i := strings.Index(out, "((")
	if i < 0 {
		if n == 0 {
			return []string{}
		}
		return nil
	}
	body := strings.TrimSpace(out[i:])
	// strip outer parens
	depth := 0
	end := -1
	inStr := false
	for k := 0; k < len(body); k++ {
		c := body[k]
		if inStr {
			if c == '"' {
				if k+1 < len(body) && body[k+1] == '"' {
					k++
					continue
				}
				inStr = false
			}
			continue
		}
		switch c {
		case '"':
			inStr = true
		case '(':
			depth++
		case ')':
			depth--
			if depth == 0 {
				end = k
			}
		}
		if end >= 0 {
			break
		}
	}
	if end < 0 {
		return nil
	}
	pairs := splitSexp(body[1:end])
	var vals []string
	for _, p := range pairs {
		kv := splitSexp(p[1 : len(p)-1])
		if len(kv) < 2 {
			return nil
		}
		vals = append(vals, kv[len(kv)-1])
	}
	if len(vals) != n {
		return nil
	}
	return vals
}

func smtIntToGo(v string) string {
	v = strings.TrimSpace(v)
	if strings.HasPrefix(v, "(- ") {
		return "-" + strings.TrimSpace(v[3:len(v)-1])
	}
	return v
}

var uEsc = regexp.MustCompile(`\\u\{([0-9a-fA-F]+)\}|\\u([0-9a-fA-F]{4})|\\x([0-9a-fA-F]{2})`)

func smtStringToGo(v string) string {
	v = strings.TrimSpace(v)
	if len(v) >= 2 && v[0] == '"' {
		v = v[1 : len(v)-1]
	}
	v = strings.ReplaceAll(v, `""`, `"`)
	// one SMT character per byte
	return uEsc.ReplaceAllStringFunc(v, func(m string) string {
		sm := uEsc.FindStringSubmatch(m)
		h := sm[1] + sm[2] + sm[3]
		n, _ := strconv.ParseUint(h, 16, 32)
		if n < 256 {
			return string([]byte{byte(n)})
		}
		return string(rune(n))
	})
}

// smtRealToGo renders an SMT real value (1.0, (- 1.5), (/ 1.0 3.0), ...) as a Go float64 literal.
func smtRealToGo(v string) string {
	var eval func(t string) (float64, bool)
	eval = func(t string) (float64, bool) {
		t = strings.TrimSpace(t)
		if strings.HasPrefix(t, "(") {
			parts := splitSexp(t[1 : len(t)-1])
			if len(parts) == 2 && parts[0] == "-" {
				x, ok := eval(parts[1])
				return -x, ok
			}
			if len(parts) == 3 && parts[0] == "/" {
				a, ok1 := eval(parts[1])
				b, ok2 := eval(parts[2])
				if ok1 && ok2 && b != 0 {
					return a / b, true
				}
			}
			return 0, false
		}
		t = strings.TrimSuffix(t, "?")
		f, err := strconv.ParseFloat(t, 64)
		return f, err == nil
	}
	f, ok := eval(v)
	if !ok {
		return "0.0"
	}
	return strconv.FormatFloat(f, 'g', -1, 64)
}

// runWitnesses replays the committed witnesses of known findings in one test binary per package.
// Returns, per obligation name, whether its witness still fails on the current tree (defect present).
func (P *Program) runWitnesses(entries []exceptionEntry, dir string) (map[string]bool, string) {
	files := map[string]string{}
	for _, e := range entries {
		if e.Witness != "" {
			files[e.Obligation] = e.Witness
		}
	}
	return P.runGoTests(files, dir)
}

// runGoTests runs committed test bodies (paths relative to /verif) in one test binary; result: name -> failed.
func (P *Program) runGoTests(files map[string]string, dir string) (map[string]bool, string) {
	res := map[string]bool{}
	var body strings.Builder
	names := map[string]string{}
	n := 0
	var keys []string
	for k := range files {
		keys = append(keys, k)
	}
	sort.Strings(keys)
	for _, k := range keys {
		data, err := os.ReadFile(filepath.Join(P.verif, files[k]))
		if err != nil {
			continue
		}
		n++
		tn := fmt.Sprintf("TestVerifWitness%d", n)
		names[tn] = k
		fmt.Fprintf(&body, "func %s(t *testing.T) {\n%s\n}\n\n", tn, string(data))
	}
	if n == 0 {
		return res, ""
	}
	src := "package yqlib\n\nimport (\n\t\"testing\"\n\t\"fmt\"\n\t\"math/big\"\n\t\"strings\"\n\t\"os\"\n\t\"bytes\"\n\t\"container/list\"\n\t\"encoding/csv\"\n\t\"errors\"\n\t\"runtime/debug\"\n\tyaml \"gopkg.in/yaml.v3\"\n)\n\ntype verifFailingWriter struct{}\n\nfunc (verifFailingWriter) Write(p []byte) (int, error) { return 0, errors.New(\"disk full\") }\n\n// fails on the n-th write that consists of a single newline, accepts everything else\ntype verifNewlineFailingWriter struct {\n\tbuf bytes.Buffer\n\tseen, failOn int\n\tfailed bool\n}\n\nfunc (w *verifNewlineFailingWriter) Write(p []byte) (int, error) {\n\tif string(p) == \"\\n\" {\n\t\tw.seen++\n\t\tif w.seen == w.failOn {\n\t\t\tw.failed = true\n\t\t\treturn 0, errors.New(\"disk full\")\n\t\t}\n\t}\n\treturn w.buf.Write(p)\n}\n\nvar _ = csv.NewWriter\nvar _ = fmt.Sprint\nvar _ = big.NewInt\nvar _ = strings.Contains\nvar _ = os.Getenv\nvar _ = bytes.NewBuffer\nvar _ = list.New\nvar _ = yaml.Marshal\nvar _ = debug.SetMaxStack\n\n" + body.String()
	testFile := filepath.Join(dir, "zz_verif_witness_test.go")
	os.WriteFile(testFile, []byte(src), 0o644)
	target := filepath.Join(P.repo, "pkg/yqlib", "zz_verif_witness_test.go")
	ovData, _ := json.Marshal(map[string]map[string]string{"Replace": {target: testFile}})
	ovFile := filepath.Join(dir, "overlay_witness.json")
	os.WriteFile(ovFile, ovData, 0o644)
	ctx, cancel := context.WithTimeout(context.Background(), 900*time.Second)
	defer cancel()
	cmd := exec.CommandContext(ctx, "go", "test", "-overlay", ovFile, "-vet=off", "-count=1", "-timeout", "600s", "-v", "-run", "^TestVerifWitness", "./pkg/yqlib")
	cmd.Dir = P.repo
	cmd.Env = append(os.Environ(), "GOFLAGS=-mod=mod", "GOPROXY=off", "GOSUMDB=off", "GOTOOLCHAIN=local", "YQV_TIER="+currentTier)
	var out bytes.Buffer
	cmd.Stdout = &out
	cmd.Stderr = &out
	_ = cmd.Run()
	o := out.String()
	for tn, obl := range names {
		if strings.Contains(o, "--- FAIL: "+tn+" ") {
			res[obl] = true
		} else if strings.Contains(o, "--- PASS: "+tn+" ") {
			res[obl] = false
		} else if strings.Contains(o, "panic:") && strings.Contains(o, tn) {
			res[obl] = true
		}
	}
	// per-test sections, so that each obligation's replay file shows its own run
	lastGoTestSections = map[string]string{}
	for tn, obl := range names {
		start := strings.Index(o, "=== RUN   "+tn+"\n")
		if start < 0 {
			continue
		}
		end := strings.Index(o[start+1:], "=== RUN   ")
		sec := o[start:]
		if end >= 0 {
			sec = o[start : start+1+end]
		}
		lastGoTestSections[obl] = sec
	}
	return res, o
}

// currentTier: quick|thorough, handed to the executed and bounded checks (YQV_TIER) so that the thorough tier can
// widen their bounds.
var currentTier = "quick"

// lastGoTestSections: obligation name -> the part of the last go test output that belongs to it.
var lastGoTestSections = map[string]string{}
