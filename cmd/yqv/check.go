package main

// `yqv check <property>`: generate the obligations that carry a property, discharge them, compare with
// the exception lists (known findings, unclaimed), write evidence, print VIOLATION lines.

import (
	"encoding/json"
	"flag"
	"fmt"
	"os"
	"path/filepath"
	"sort"
	"strings"
	"sync"
	"syscall"
	"time"

	"golang.org/x/tools/go/ssa"
)

// which obligation kinds carry which property when the clause itself is not tagged
var safetyKinds = map[string]bool{"index": true, "slice": true, "nil": true, "typeassert": true, "panic": true, "div": true, "makeslice": true, "decreases": true}
var functionalKinds = map[string]bool{"post": true, "inv-entry": true, "inv-preserved": true, "pre": true, "always": true}
var frameKinds = map[string]bool{"frame": true, "frame-call": true, "closure-contract": true}

type propSpec struct {
	id     string
	kinds  func(kind string) bool
	opts   genOpts
	allFns bool // applies to every function under contract (C11)
	extra  []func(P *Program, tier string) []extraResult
}

type extraResult struct {
	Name   string
	Kind   string // table | executed | bounded | lemma
	OK     bool
	Detail string
	Count  int
	Ms     int64
}

var propSpecs = map[string]*propSpec{}

// extraChecks: table / executed / inferred checks per property (registered from other files' init)
var extraChecks = map[string][]func(P *Program, tier string) []extraResult{}

// prepareChecks: run before the function VCs of a property are generated (e.g. frame inference, whose
// summaries the hand-written contracts of the property rely on)
var prepareChecks = map[string]func(P *Program, tier string){}

func regProp(id string, opts genOpts, kinds map[string]bool, allFns bool) *propSpec {
	ps := &propSpec{id: id, opts: opts, allFns: allFns, kinds: func(k string) bool { return kinds[k] }}
	propSpecs[id] = ps
	return ps
}

func init() {
	full := genOpts{safety: true, functional: true, frames: true}
	for _, id := range []string{"C01", "C02", "C03", "C04", "C05", "C06", "C09", "C10", "C12", "C13", "C15", "C16", "C17", "C18"} {
		regProp(id, full, functionalKinds, false)
	}
	regProp("C11", full, safetyKinds, true)
	regProp("C07", full, frameKinds, false)
	regProp("C08", genOpts{safety: true, functional: true, frames: true, docFrame: true}, frameKinds, false)
	ep := full
	ep.errprop = true
	regProp("C19", ep, map[string]bool{"errprop": true, "post": true, "inv-entry": true, "inv-preserved": true, "pre": true}, false)
}

type exceptionEntry struct {
	Property   string `json:"property"`
	Obligation string `json:"obligation"`
	What       string `json:"what"`
	Witness    string `json:"witness,omitempty"` // path (relative to /verif) of a Go test that fails on the defect
	Reason     string `json:"reason,omitempty"`
}

type exceptionFile struct {
	Findings  []exceptionEntry `json:"findings"`
	Fixed     []string         `json:"fixed"`
	Unclaimed []exceptionEntry `json:"unclaimed"`
}

func loadExceptions(verif string) (*exceptionFile, error) {
	ef := &exceptionFile{}
	data, err := os.ReadFile(filepath.Join(verif, "known_findings.json"))
	if err == nil {
		if err := json.Unmarshal(data, ef); err != nil {
			return nil, fmt.Errorf("known_findings.json: %v", err)
		}
	}
	var un struct {
		Unclaimed []exceptionEntry `json:"unclaimed"`
	}
	data, err = os.ReadFile(filepath.Join(verif, "unclaimed.json"))
	if err == nil {
		if err := json.Unmarshal(data, &un); err != nil {
			return nil, fmt.Errorf("unclaimed.json: %v", err)
		}
		ef.Unclaimed = append(ef.Unclaimed, un.Unclaimed...)
	}
	return ef, nil
}

func hasProp(props []string, id string) bool {
	for _, p := range props {
		if p == id {
			return true
		}
	}
	return false
}

// belongs: does obligation o of a function with contract con count for property ps?
func belongs(o *Obligation, con *Contract, ps *propSpec) bool {
	if o.Kind == "cover" {
		return true
	}
	if len(o.Props) > 0 {
		return hasProp(o.Props, ps.id)
	}
	if !ps.kinds(o.Kind) {
		return false
	}
	if o.Kind == "pre" && con != nil && con.flag("nopre") {
		return false // callee preconditions at the call sites of this function are assumed (listed in the evidence)
	}
	if ps.allFns {
		// a function whose panic-freedom is not claimed (flag nosafety) contributes only the clauses tagged
		// with the property
		return con == nil || !con.flag("nosafety") || hasProp(con.Props, ps.id)
	}
	return con != nil && hasProp(con.Props, ps.id)
}

type checkRun struct {
	skipped  []string // functions under contract left out of an all-functions property (flag nosafety)
	P        *Program
	ps       *propSpec
	tier     string
	seed     int64
	timeout  int
	results  []oblResult
	extras   []extraResult
	vcs      []*VC
	genErrs  []string
	fns      []string
	start    time.Time
	solverMs int64
}

func cmdCheck(args []string) {
	fs := flag.NewFlagSet("check", flag.ExitOnError)
	tier := fs.String("tier", envOr("VERIF_TIER", "quick"), "quick|thorough")
	target, rest := splitTarget(args)
	fs.Parse(rest)
	if target == "" {
		usage()
	}
	release := acquireSlot(envOr("VERIF_DIR", "/verif"))
	code := runCheck(target, *tier, envOr("YQ_REPO", "/repo"), envOr("VERIF_DIR", "/verif"), true)
	release()
	os.Exit(code)
}

func runCheck(id, tier, repo, verif string, writeEvidence bool) int {
	ps := propSpecs[id]
	if ps == nil {
		fmt.Fprintf(os.Stderr, "unknown or unclaimed property %s\n", id)
		return 2
	}
	start := time.Now()
	seed := int64(0)
	fmt.Sscan(os.Getenv("VERIF_SEED"), &seed)
	P, err := loadProgram(repo, verif)
	currentTier = tier
	cr := &checkRun{P: P, ps: ps, tier: tier, seed: seed, start: start, timeout: 20000}
	if tier == "thorough" {
		cr.timeout = 60000
	}
	replayDir := filepath.Join(verif, "replay", id)
	os.RemoveAll(replayDir)
	os.MkdirAll(replayDir, 0o755)
	if err != nil {
		// the tree does not load (does not compile with -tags verif, or a contract no longer parses)
		path := filepath.Join(replayDir, "load-error.txt")
		os.WriteFile(path, []byte("obligation: load /repo with -tags verif\n\n"+err.Error()+"\n"), 0o644)
		fmt.Printf("VIOLATION property=%s replay=%s no-failing-input-found\n", id, path)
		if writeEvidence {
			cr.writeEvidence(verif, 1, nil, nil, []string{"load error: " + err.Error()})
		}
		return 1
	}
	exc, err := loadExceptions(verif)
	if err != nil {
		fmt.Fprintln(os.Stderr, err)
		return 2
	}
	if prep := prepareChecks[id]; prep != nil {
		prep(P, tier)
	}
	// functions that carry the property
	var names []string
	for name, con := range P.contracts {
		if strings.HasPrefix(name, "invoke ") || strings.HasPrefix(name, "functype ") {
			continue
		}
		if con.flag("extern") {
			continue // assumed contract of a library function: nothing to analyse
		}
		if ps.allFns && con.flag("nosafety") && !hasProp(con.Props, id) {
			// a driver function whose panic-freedom is not claimed (too many callees without contracts);
			// listed in the evidence. Clauses tagged with the property are still checked.
			cr.skipped = append(cr.skipped, name)
			if !clauseMentions(con, id) {
				continue
			}
		}
		if ps.allFns || hasProp(con.Props, id) || clauseMentions(con, id) {
			names = append(names, name)
		}
	}
	sort.Strings(names)
	tmp, cleanup := tempDir()
	defer cleanup()
	var mu sync.Mutex
	var wg sync.WaitGroup
	sem := make(chan struct{}, 8)
	var missing []string
	for _, name := range names {
		fn := P.funcs[name]
		con := P.getContract(name)
		if fn == nil {
			missing = append(missing, name)
			continue
		}
		sitesOnly := false
		if con.flag("trusted") {
			if len(con.Sites) == 0 {
				continue // assumed contract: the body is not analysed (listed in evidence)
			}
			// an assumed contract that also carries site clauses: the frame and the postconditions stay assumed,
			// the site clauses are checked on the body
			sitesOnly = true
		}
		wg.Add(1)
		go func(name string, fn *ssa.Function, con *Contract, sitesOnly bool) {
			defer wg.Done()
			sem <- struct{}{}
			defer func() { <-sem }()
			vc, err := P.generateFixpoint(fn, con, ps.opts, cr.timeout)
			if err != nil {
				mu.Lock()
				cr.genErrs = append(cr.genErrs, err.Error())
				mu.Unlock()
				return
			}
			var sel []*Obligation
			for _, o := range vc.Obls {
				if sitesOnly && o.Kind != "site" {
					continue
				}
				if belongs(o, con, ps) {
					sel = append(sel, o)
				}
			}
			res := P.discharge(sel, tmp, cr.timeout, tier == "thorough", "")
			mu.Lock()
			cr.vcs = append(cr.vcs, vc)
			cr.results = append(cr.results, res...)
			cr.fns = append(cr.fns, name)
			mu.Unlock()
		}(name, fn, con, sitesOnly)
	}
	wg.Wait()
	// second chance, one at a time: an obligation that ran out of time (no counterexample) while everything else
	// was running is tried again alone with twice the time before it is reported
	undecided := 0
	for i := range cr.results {
		if r := &cr.results[i]; !r.OK && r.Res.Verdict != "sat" && !r.Obl.Cover {
			undecided++
		}
	}
	for i := range cr.results {
		r := &cr.results[i]
		if r.OK || r.Res.Verdict == "sat" || r.Obl.Cover || undecided > 6 {
			// (more than a handful of undecided obligations is not a scheduling accident)
			continue
		}
		again := P.dischargeOne(r.Obl, tmp, 2*cr.timeout, false)
		if again.OK {
			again.Res.Solver += "(second attempt)"
			*r = again
		}
	}
	sort.Strings(cr.fns)
	sort.Slice(cr.results, func(i, j int) bool { return cr.results[i].Obl.Name < cr.results[j].Obl.Name })
	// lemmas of the spec library tagged with this property
	cr.extras = append(cr.extras, P.runLemmas(id, tmp, cr.timeout, tier == "thorough")...)
	for _, ex := range extraChecks[id] {
		cr.extras = append(cr.extras, ex(P, tier)...)
	}
	// pipeline canary: a false obligation must be refuted
	canary := P.canary(tmp)

	// ---- verdicts ----
	known := map[string]exceptionEntry{}
	var knownPrefix []exceptionEntry
	for _, f := range exc.Findings {
		if f.Property == id {
			if strings.HasSuffix(f.Obligation, "*") {
				knownPrefix = append(knownPrefix, f)
			} else {
				known[f.Obligation] = f
			}
		}
	}
	// a finding whose obligation ends in * covers every obligation with that prefix (one defect, several clauses)
	expandKnown := func(name string) {
		if _, ok := known[name]; ok {
			return
		}
		for _, f := range knownPrefix {
			if strings.HasPrefix(name, strings.TrimSuffix(f.Obligation, "*")) {
				known[name] = f
				return
			}
		}
	}
	unclaimed := map[string]exceptionEntry{}
	for _, u := range exc.Unclaimed {
		if u.Property == id || u.Property == "" {
			unclaimed[u.Obligation] = u
		}
	}
	var witnessEntries []exceptionEntry
	for _, f := range known {
		witnessEntries = append(witnessEntries, f)
	}
	for _, f := range knownPrefix {
		witnessEntries = append(witnessEntries, f)
	}
	witness, witnessOut := P.runWitnesses(witnessEntries, tmp)
	// executed checks: committed test bodies under /verif/exec/<id>_*.go.txt must PASS on the real code
	execFiles := map[string]string{}
	if m, _ := filepath.Glob(filepath.Join(verif, "exec", id+"_*_test.go.txt")); len(m) > 0 {
		for _, f := range m {
			name := "executed/" + strings.TrimSuffix(strings.TrimPrefix(filepath.Base(f), id+"_"), "_test.go.txt")
			execFiles[name] = filepath.Join("exec", filepath.Base(f))
		}
		t0 := time.Now()
		failed, out := P.runGoTests(execFiles, tmp)
		sections := lastGoTestSections
		for name := range execFiles {
			f, ran := failed[name]
			detail := truncate(out, 3000)
			if sec, ok := sections[name]; ok {
				detail = "test body: " + execFiles[name] + "\n\n" + truncate(sec, 6000)
			}
			kind := "executed"
			if strings.HasPrefix(name, "executed/bounded_") {
				kind = "bounded"
				name = "bounded/" + strings.TrimPrefix(name, "executed/bounded_")
			} else if strings.HasPrefix(name, "executed/regress_") {
				// the replayed counterexample of a repaired defect: must keep passing
				kind = "regression"
				name = "regression/" + strings.TrimPrefix(name, "executed/regress_")
			}
			cr.extras = append(cr.extras, extraResult{Name: name, Kind: kind, OK: ran && !f, Detail: detail, Ms: time.Since(t0).Milliseconds()})
		}
	}
	violations := 0
	printedKnown := map[string]bool{}
	var knownHit []string
	var unclaimedHit []string
	report := func(name, kind, detail string, res *oblResult) {
		violations++
		path := filepath.Join(replayDir, sanitizeFile(name)+".txt")
		var b strings.Builder
		fmt.Fprintf(&b, "property: %s\nobligation: %s\nkind: %s\n", id, name, kind)
		if res != nil {
			fmt.Fprintf(&b, "function: %s\nposition: %s\nverdict: %s (%v)\n", res.Obl.Func, res.Obl.Pos, res.Res.Verdict, res.Res.All)
		}
		fmt.Fprintf(&b, "\n%s\n", detail)
		suffix := " no-failing-input-found"
		if kind == "executed" || kind == "bounded" || kind == "regression" {
			// the failing test on the real code is itself the failing input
			suffix = ""
		}
		if res != nil && res.Res.Verdict == "sat" {
			if txt, failing := P.tryReplay(res, tmp); txt != "" {
				b.WriteString("\n---- replay against the real code ----\n" + txt)
				if failing {
					suffix = ""
				}
			}
		}
		os.WriteFile(path, []byte(b.String()), 0o644)
		fmt.Printf("VIOLATION property=%s replay=%s%s\n", id, path, suffix)
	}
	for _, m := range missing {
		report("contract/"+m, "contract", "the contract file names function "+m+" which no longer exists in the tree; its obligations cannot be generated", nil)
	}
	for _, e := range cr.genErrs {
		report("generate/"+firstWord(e), "generate", "VC generation failed: "+e, nil)
	}
	if !canary {
		report("canary/false-obligation", "vacuity", "the deliberately false obligation was not refuted: the pipeline cannot say no", nil)
	}
	discharged, total := 0, 0
	var samples []map[string]interface{}
	byKind := map[string]int{}
	bySolver := map[string]int{}
	var inconclusiveCovers []string
	for i := range cr.results {
		r := &cr.results[i]
		if r.Obl.Cover {
			if !r.OK && P.getContract(r.Obl.Func).flag("allowdead") {
				inconclusiveCovers = append(inconclusiveCovers, r.Obl.Name+" (unreachable; contract says allowdead)")
			} else if !r.OK {
				report(r.Obl.Name, "vacuity", "this return is unreachable under the contract's preconditions and loop invariants (cover query unsat): the proof of this function would be vacuous", r)
			} else if r.Inconclusive {
				inconclusiveCovers = append(inconclusiveCovers, r.Obl.Name)
			}
			continue
		}
		cr.solverMs += r.Res.Ms
		expandKnown(r.Obl.Name)
		if f, ok := known[r.Obl.Name]; ok {
			if r.OK {
				// the defect no longer shows: nothing to report (a fixed finding must not be listed; note it)
				knownHit = append(knownHit, r.Obl.Name+" (now discharged)")
				total++
				discharged++
				continue
			}
			if stillFails, ran := witness[f.Obligation]; f.Witness != "" && (!ran || !stillFails) {
				report(r.Obl.Name, r.Obl.Kind, "this obligation is listed as a known finding, but its committed witness no longer fails on this tree while the obligation still does: a different violation of the same obligation\n\nwitness run:\n"+truncate(witnessOut, 3000), r)
				continue
			}
			if !printedKnown[f.Obligation] {
				printedKnown[f.Obligation] = true
				fmt.Printf("KNOWN-FINDING: property=%s %s — %s\n", id, f.Obligation, f.What)
			}
			knownHit = append(knownHit, r.Obl.Name)
			continue
		}
		if u, ok := unclaimed[r.Obl.Name]; ok {
			if !r.OK {
				unclaimedHit = append(unclaimedHit, r.Obl.Name+": "+u.Reason)
				continue
			}
		}
		total++
		byKind[r.Obl.Kind]++
		if r.OK {
			discharged++
			bySolver[r.Res.Solver]++
			if len(samples) < 12 {
				samples = append(samples, map[string]interface{}{"obligation": r.Obl.Name, "kind": r.Obl.Kind, "backend": r.Res.Solver, "ms": r.Res.Ms, "at": fmt.Sprintf("%s:%d", shortFile(r.Obl.Pos.Filename), r.Obl.Pos.Line)})
			}
			continue
		}
		detail := fmt.Sprintf("guard: %s\nmust hold: %s\n\nsolver output:\n%s", truncate(r.Obl.Guard, 400), truncate(r.Obl.Cond, 2000), truncate(r.Res.Output, 4000))
		if r.Obl.Detail != "" {
			detail = r.Obl.Detail + "\n\n" + detail
		}
		report(r.Obl.Name, r.Obl.Kind, detail, r)
	}
	for _, ex := range cr.extras {
		total++
		byKind[ex.Kind]++
		if ex.OK && strings.HasSuffix(ex.Name, "/sweep") && ex.Count > 1 {
			// a sweep summary stands for Count individually discharged SMT obligations
			total += ex.Count - 1
			discharged += ex.Count - 1
			byKind[ex.Kind] += ex.Count - 1
		}
		if ex.OK {
			discharged++
			if len(samples) < 16 {
				samples = append(samples, map[string]interface{}{"obligation": ex.Name, "kind": ex.Kind, "detail": truncate(ex.Detail, 200), "ms": ex.Ms})
			}
			continue
		}
		expandKnown(ex.Name)
		if u, ok := unclaimed[ex.Name]; ok {
			unclaimedHit = append(unclaimedHit, ex.Name+": "+u.Reason)
			total--
			continue
		}
		if f, ok := known[ex.Name]; ok {
			if stillFails, ran := witness[f.Obligation]; f.Witness != "" && (!ran || !stillFails) {
				report(ex.Name, ex.Kind, "listed as a known finding, but its committed witness no longer fails on this tree while the check still does\n\n"+ex.Detail+"\n\nwitness run:\n"+truncate(witnessOut, 3000), nil)
				continue
			}
			if !printedKnown[f.Obligation] {
				printedKnown[f.Obligation] = true
				fmt.Printf("KNOWN-FINDING: property=%s %s — %s\n", id, f.Obligation, f.What)
			}
			knownHit = append(knownHit, ex.Name)
			total--
			continue
		}
		report(ex.Name, ex.Kind, ex.Detail, nil)
	}
	if total == 0 && violations == 0 {
		report("vacuity/no-obligations", "vacuity", "no obligation was generated for this property", nil)
	}
	if writeEvidence {
		cr.writeEvidenceFull(verif, violations, total, discharged, samples, byKind, bySolver, knownHit, unclaimedHit, inconclusiveCovers)
	}
	sort.Slice(cr.results, func(i, j int) bool { return cr.results[i].Res.Ms > cr.results[j].Res.Ms })
	for i := 0; i < 3 && i < len(cr.results); i++ {
		fmt.Printf("  slowest: %5dms %-7s %s\n", cr.results[i].Res.Ms, cr.results[i].Res.Solver, cr.results[i].Obl.Name)
	}
	np := byKind["bounded"] + byKind["executed"] + byKind["regression"]
	fmt.Printf("%s %s: %d obligations, %d discharged (%d of them executed or bounded checks, not proofs), %d known findings, %d unclaimed, %d violations, %.1fs\n", id, tier, total, discharged, np, len(knownHit), len(unclaimedHit), violations, time.Since(start).Seconds())
	if violations > 0 {
		return 1
	}
	return 0
}

func firstWord(s string) string {
	if i := strings.IndexAny(s, ": "); i > 0 {
		return s[:i]
	}
	return s
}

func clauseMentions(con *Contract, id string) bool {
	for _, c := range con.Ensures {
		if hasProp(c.Props, id) {
			return true
		}
	}
	for _, c := range con.Requires {
		if hasProp(c.Props, id) {
			return true
		}
	}
	for _, c := range con.Sites {
		if hasProp(c.Props, id) {
			return true
		}
	}
	for _, l := range con.Loops {
		for _, c := range l.Invariants {
			if hasProp(c.Props, id) {
				return true
			}
		}
	}
	return false
}

// canary: `assert false` in an empty context must come back sat from the solvers.
func (P *Program) canary(dir string) bool {
	q := preludeText + "(declare-const canary.x Int)\n(assert (> canary.x 0))\n(assert (not false))\n(check-sat)\n"
	r := runQuery(dir, "canary", q, 3000, false, nil)
	return r.Verdict == "sat"
}

func (P *Program) runLemmas(id, dir string, timeout int, all bool) []extraResult {
	var out []extraResult
	var wg sync.WaitGroup
	var mu sync.Mutex
	for _, l := range P.lemmas {
		if !hasProp(l.Props, id) {
			continue
		}
		wg.Add(1)
		go func(l *Lemma) {
			defer wg.Done()
			base := filepath.Base(l.File)
			need := map[string]bool{base: true}
			changed := true
			for changed {
				changed = false
				for f := range need {
					for _, d := range P.specNeeds[f] {
						if !need[d] {
							need[d] = true
							changed = true
						}
					}
				}
			}
			var q strings.Builder
			q.WriteString(preludeText)
			for _, f := range P.specOrder {
				if need[f] {
					q.WriteString(P.specBodies[f])
				}
			}
			q.WriteString(l.Body)
			q.WriteString("(check-sat)\n")
			r := runQuery(dir, "lemma."+l.Name, q.String(), timeout, all, nil)
			ok := r.Verdict == "unsat"
			if l.Cover {
				ok = r.Verdict == "sat"
			}
			mu.Lock()
			out = append(out, extraResult{Name: "lemma/" + l.Name, Kind: "lemma", OK: ok, Detail: fmt.Sprintf("%s by %s in %dms\n%s", r.Verdict, r.Solver, r.Ms, truncate(r.Output, 1500)), Ms: r.Ms})
			mu.Unlock()
		}(l)
	}
	wg.Wait()
	sort.Slice(out, func(i, j int) bool { return out[i].Name < out[j].Name })
	return out
}

func (cr *checkRun) writeEvidence(verif string, violations int, a, b interface{}, notes []string) {
	cr.writeEvidenceFull(verif, violations, 0, 0, nil, nil, nil, nil, nil, notes)
}

func (cr *checkRun) writeEvidenceFull(verif string, violations, total, discharged int, samples []map[string]interface{}, byKind, bySolver map[string]int, known, unclaimed, notes []string) {
	P := cr.P
	var assumptions []string
	if P != nil {
		P.mu.Lock()
		for a := range P.assumptions {
			assumptions = append(assumptions, a)
		}
		P.mu.Unlock()
	}
	noteSet := map[string]bool{}
	for _, vc := range cr.vcs {
		for _, n := range vc.Notes {
			noteSet[n] = true
		}
	}
	for n := range noteSet {
		assumptions = append(assumptions, "over-approximation: "+n)
	}
	assumptions = append(assumptions,
		"integers are exact 64-bit machine integers (SMT Int with explicit two's-complement wrap-around)",
		"slice lengths and offsets are at most 2^56",
		"float64 values are modelled as reals (NaN and infinities excluded); int->float conversion is an uninterpreted monotone function",
		"append always returns a fresh backing array (Go may reuse spare capacity)",
		"recursion: callee contracts are assumed at recursive calls (partial correctness)",
		"go/packages, go/ssa (x/tools v0.29.0), the SSA->SMT translator in /verif/cmd/yqv and the spec library in /verif/spec are trusted",
	)
	for _, n := range cr.fns {
		if c := cr.P.getContract(n); c != nil && c.flag("nopre") {
			assumptions = append(assumptions, "assumed, not checked: the preconditions of the functions "+n+" calls hold at its call sites (flag nopre)")
		}
	}
	for _, n := range cr.skipped {
		assumptions = append(assumptions, "not covered: "+n+" is under contract for other properties but its panic-freedom is not claimed (flag nosafety)")
	}
	sort.Strings(assumptions)
	if samples == nil {
		samples = []map[string]interface{}{}
	}
	var extras []map[string]interface{}
	for _, e := range cr.extras {
		extras = append(extras, map[string]interface{}{"name": e.Name, "kind": e.Kind, "ok": e.OK, "count": e.Count, "ms": e.Ms})
	}
	// what was proved (SMT, call graph, table) and what was only executed (regression replays, exhaustive
	// executions) or sampled within a stated bound: the latter two are never counted as proved
	notProved := byKind["bounded"] + byKind["executed"] + byKind["regression"]
	cov := map[string]interface{}{
		"obligations":              total,
		"discharged":               discharged,
		"proved":                   discharged - notProved,
		"executed_not_proved":      byKind["executed"] + byKind["regression"],
		"bounded_not_proved":       byKind["bounded"],
		"checker_cmd":              fmt.Sprintf("./bin/yqv check %s --tier %s  (solvers raced per obligation: z3-new 5.1.0, z3 4.8.12, cvc5 1.0.x; timeout %d ms)", cr.ps.id, cr.tier, cr.timeout),
		"trusted_base":             []string{"go/ssa (x/tools v0.29.0)", "yqv VC generator", "spec library /verif/spec", "assumed library models (see assumptions)", "z3 / cvc5"},
		"samples":                  samples,
		"functions_under_contract": cr.fns,
		"by_kind":                  byKind,
		"by_backend":               bySolver,
		"solver_time_s":            float64(cr.solverMs) / 1000,
		"known_findings":           known,
		"unclaimed":                unclaimed,
		"other_checks":             extras,
		"inconclusive_covers":      notes,
		"generation_errors":        cr.genErrs,
	}
	ev := map[string]interface{}{
		"property_id": cr.ps.id,
		"tier":        cr.tier,
		"seed":        cr.seed,
		"level":       "proof",
		"coverage":    cov,
		"assumptions": assumptions,
		"wall_s":      time.Since(cr.start).Seconds(),
		"violations":  violations,
	}
	data, _ := json.MarshalIndent(ev, "", " ")
	os.MkdirAll(filepath.Join(verif, "evidence"), 0o755)
	os.WriteFile(filepath.Join(verif, "evidence", cr.ps.id+".json"), append(data, '\n'), 0o644)
}

// tryReplay is implemented in replay.go

// acquireSlot: at most two checks of this installation run at the same time (advisory file locks under
// .cache): every check already uses all cores, and solvers starved of CPU time out on queries they decide in
// a second otherwise. A check that has waited 20 minutes runs anyway.
func acquireSlot(verif string) func() {
	if os.Getenv("YQV_NOLOCK") != "" {
		return func() {}
	}
	dir := filepath.Join(verif, ".cache")
	if os.MkdirAll(dir, 0o755) != nil {
		return func() {}
	}
	deadline := time.Now().Add(20 * time.Minute)
	for time.Now().Before(deadline) {
		for i := 0; i < 2; i++ {
			f, err := os.OpenFile(filepath.Join(dir, fmt.Sprintf("slot%d.lock", i)), os.O_CREATE|os.O_RDWR, 0o644)
			if err != nil {
				return func() {}
			}
			if syscall.Flock(int(f.Fd()), syscall.LOCK_EX|syscall.LOCK_NB) == nil {
				return func() { f.Close() }
			}
			f.Close()
		}
		time.Sleep(300 * time.Millisecond)
	}
	return func() {}
}
