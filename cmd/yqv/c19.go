package main

// C19: zero-annotation error-propagation sweep over every yq function that returns an error: a callee's
// non-nil error that is only tested against nil (not inspected, wrapped or deliberately recovered from) must
// make the function return a non-nil error.

import (
	"fmt"
	"go/types"
	"sort"
	"sync"
	"time"
)

func errpropSweep(P *Program, tier string) []extraResult {
	t0 := time.Now()
	save := fastMode
	fastMode = true
	defer func() { fastMode = save }()
	var names []string
	for n, fn := range P.funcs {
		sig := fn.Signature
		k := sig.Results().Len()
		if k > 0 && types.TypeString(sig.Results().At(k-1).Type(), nil) == "error" {
			if c := P.contractFor(fn); c != nil && (c.flag("trusted") || hasProp(c.Props, "C19")) {
				continue // trusted bodies are not analysed; C19-tagged functions are checked with their contracts
			}
			names = append(names, n)
		}
	}
	sort.Strings(names)
	dir, cleanup := tempDir()
	defer cleanup()
	to := 3000
	if tier == "thorough" {
		to = 15000
	}
	var wg sync.WaitGroup
	var mu sync.Mutex
	sem := make(chan struct{}, 12)
	var res []extraResult
	okc := 0
	for _, n := range names {
		wg.Add(1)
		go func(n string) {
			defer wg.Done()
			sem <- struct{}{}
			defer func() { <-sem }()
			vc, err := P.generateFixpoint(P.funcs[n], P.contractFor(P.funcs[n]), genOpts{errprop: true, assumeTypeAsserts: true}, to)
			if err != nil {
				mu.Lock()
				res = append(res, extraResult{Name: "errprop/" + n + "/generation", Kind: "errprop", OK: false, Detail: err.Error()})
				mu.Unlock()
				return
			}
			var sel []*Obligation
			for _, o := range vc.Obls {
				if o.Kind == "errprop" {
					sel = append(sel, o)
				}
			}
			for _, r := range P.discharge(sel, dir, to, false, "") {
				mu.Lock()
				if r.OK {
					okc++
				} else {
					res = append(res, extraResult{Name: r.Obl.Name, Kind: "errprop", OK: false,
						Detail: fmt.Sprintf("%s:%d: a callee's error is tested against nil and the function then returns a nil error (or the error is dropped without a check)\nverdict %s %v", shortFile(r.Obl.Pos.Filename), r.Obl.Pos.Line, r.Res.Verdict, r.Res.All)})
				}
				mu.Unlock()
			}
		}(n)
	}
	wg.Wait()
	sort.Slice(res, func(i, j int) bool { return res[i].Name < res[j].Name })
	res = append([]extraResult{{Name: "errprop/sweep", Kind: "errprop", OK: okc > 500, Count: okc,
		Detail: fmt.Sprintf("%d functions returning an error swept without annotation, %d return-site obligations discharged, %d not", len(names), okc, len(res))}}, res...)
	for i := range res {
		res[i].Ms = time.Since(t0).Milliseconds()
	}
	return res
}

func init() {
	extraChecks["C19"] = append(extraChecks["C19"], errpropSweep)
}
