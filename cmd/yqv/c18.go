package main

// C18, the history half: "the result of an evaluation does not depend on which expressions were parsed or which
// documents were evaluated earlier with the same library objects". What carries history between evaluations
// inside one process is state that outlives an evaluation: package-level variables and the objects they hold
// (operator descriptors, lexer rules with their embedded decoders, configured preferences). The sweep proves,
// on the over-approximated call graph of callgraph.go, that no function reachable from an evaluation entry
// point stores into such state — one obligation per package-level variable and per field-set of a type whose
// instances are reachable from package-level variables. What it cannot show absent is listed in
// tables/c18_allowed.json with the reason it is harmless, or is a finding.

import (
	"encoding/json"
	"fmt"
	"go/ast"
	"go/types"
	"os"
	"path/filepath"
	"sort"
	"strings"
	"sync"
	"time"

	"golang.org/x/tools/go/ssa"
)

type c18Allowed struct {
	Allowed map[string]string `json:"allowed"` // key ("var.X" or "T.*") -> why a reachable writer is harmless
}

func c18Sweep(P *Program, tier string) []extraResult {
	t0 := time.Now()
	G := P.reach()
	G.mu.Lock()
	defer G.mu.Unlock()
	var allowed c18Allowed
	if data, err := os.ReadFile(filepath.Join(P.verif, "tables", "c18_allowed.json")); err == nil {
		json.Unmarshal(data, &allowed)
	}
	var yqlib *ssa.Package
	for _, sp := range P.spkgs {
		if sp != nil && sp.Pkg.Path() == yqModule+"/pkg/yqlib" {
			yqlib = sp
		}
	}
	if yqlib == nil {
		return []extraResult{{Name: "history/setup", Kind: "callgraph", OK: false, Detail: "package yqlib not found"}}
	}
	// entry points of an evaluation: every implementation of the interfaces an evaluation goes through
	entryIfaces := map[string][]string{
		"DataTreeNavigator":         {"GetMatchingNodes"},
		"ExpressionParserInterface": {"ParseExpression"},
		"Encoder":                   {"Encode", "PrintDocumentSeparator", "PrintLeadingContent", "CanHandleAliases"},
		"Decoder":                   {"Init", "Decode"},
		"Printer":                   {"PrintResults"},
		"StreamEvaluator":           {"Evaluate", "EvaluateFiles", "EvaluateNew"},
		"Evaluator":                 {"EvaluateFiles", "EvaluateNodes", "EvaluateCandidateNodes"},
		"StringEvaluator":           {"Evaluate", "EvaluateAll"},
	}
	var roots []*ssa.Function
	seenRoot := map[*ssa.Function]bool{}
	var rootNames []string
	for iname, methods := range entryIfaces {
		tn, ok := yqlib.Pkg.Scope().Lookup(iname).(*types.TypeName)
		if !ok {
			continue
		}
		it, ok := tn.Type().Underlying().(*types.Interface)
		if !ok {
			continue
		}
		for _, mn := range methods {
			for i := 0; i < it.NumMethods(); i++ {
				if it.Method(i).Name() != mn {
					continue
				}
				impls, _ := G.implementations(tn.Type(), it.Method(i))
				for _, f := range impls {
					if !seenRoot[f] {
						seenRoot[f] = true
						roots = append(roots, f)
						rootNames = append(rootNames, P.relName(f))
					}
				}
			}
		}
	}
	sort.Strings(rootNames)
	// the state that outlives an evaluation
	var keys []string
	seenKey := map[string]bool{}
	addKey := func(k string) {
		if !seenKey[k] {
			seenKey[k] = true
			keys = append(keys, k)
		}
	}
	var structOf func(t types.Type, depth int)
	structOf = func(t types.Type, depth int) {
		if depth > 3 {
			return
		}
		switch x := t.(type) {
		case *types.Pointer:
			structOf(x.Elem(), depth+1)
		case *types.Slice:
			structOf(x.Elem(), depth+1)
		case *types.Array:
			structOf(x.Elem(), depth+1)
		case *types.Map:
			structOf(x.Elem(), depth+1)
		case *types.Named:
			if x.Obj().Pkg() == nil || !P.isYq(x.Obj().Pkg().Path()) {
				return
			}
			st, ok := x.Underlying().(*types.Struct)
			if !ok {
				return
			}
			k := P.relType(x) + ".*"
			if seenKey[k] {
				return
			}
			addKey(k)
			for i := 0; i < st.NumFields(); i++ {
				structOf(st.Field(i).Type(), depth+1)
			}
		}
	}
	for name, m := range yqlib.Members {
		gl, ok := m.(*ssa.Global)
		if !ok || strings.HasPrefix(name, "init$") {
			continue
		}
		addKey("var." + name)
		structOf(deref(gl.Type()), 0)
	}
	// a package-level variable of an interface type holds whatever concrete object is stored into it: the
	// types of the values stored (a conversion to the interface on the spot, or one returned by the constructor
	// that is called for the value) are state that outlives an evaluation too
	concreteOf := func(v ssa.Value) []types.Type {
		var out []types.Type
		var fromValue func(v ssa.Value, depth int)
		fromValue = func(v ssa.Value, depth int) {
			switch x := v.(type) {
			case *ssa.MakeInterface:
				out = append(out, x.X.Type())
			case *ssa.Call:
				if callee := x.Call.StaticCallee(); callee != nil && depth < 2 {
					for _, b := range callee.Blocks {
						for _, in := range b.Instrs {
							if r, ok := in.(*ssa.Return); ok {
								for _, res := range r.Results {
									fromValue(res, depth+1)
								}
							}
						}
					}
				}
			}
		}
		fromValue(v, 0)
		return out
	}
	for _, fn := range yqlib.Members {
		f, ok := fn.(*ssa.Function)
		if !ok {
			continue
		}
		fns := []*ssa.Function{f}
		fns = append(fns, f.AnonFuncs...)
		for _, g := range fns {
			for _, b := range g.Blocks {
				for _, in := range b.Instrs {
					st, ok := in.(*ssa.Store)
					if !ok {
						continue
					}
					gl, ok := st.Addr.(*ssa.Global)
					if !ok || gl.Pkg != yqlib {
						continue
					}
					if _, isIface := deref(gl.Type()).Underlying().(*types.Interface); !isIface {
						continue
					}
					for _, ct := range concreteOf(st.Val) {
						structOf(ct, 0)
					}
				}
			}
		}
	}
	sort.Strings(keys)
	var out []extraResult
	for _, k := range keys {
		if strings.HasPrefix(k, "CandidateNode.") || strings.HasPrefix(k, "Context.") || strings.HasPrefix(k, "ExpressionNode.") || strings.HasPrefix(k, "Operation.") {
			// per-evaluation data (documents, contexts, the parsed expression tree) that a global happens to
			// have the type of; the expression tree's own cross-document state is C10's/C08's subject
			continue
		}
		chain := G.reachWriter(roots, false, yqlib.Pkg, k)
		ok := chain == ""
		detail := fmt.Sprintf("no function reachable from the %d evaluation entry points stores into %s (%s)", len(roots), k, G.describe())
		if chain != "" {
			detail = "a writer is reachable from an evaluation entry point: " + chain
			if strings.HasPrefix(k, "var.") {
				// a variable that is only ever assigned non-nil values carries "initialised", not history
				if G.reachWriter(roots, false, yqlib.Pkg, "nonnil:"+k) == "" {
					ok = true
					detail = "written only with non-nil values (lazy initialisation): " + chain
				}
			}
			if why, has := allowed.Allowed[k]; has && !ok {
				ok = true
				detail = "allowed: " + why + " — " + chain
				P.usedAssumption("C18 history sweep: writer of " + k + " tolerated: " + why)
			}
		}
		out = append(out, extraResult{Name: "history/" + k, Kind: "callgraph", OK: ok, Detail: detail, Ms: time.Since(t0).Milliseconds()})
	}
	P.usedAssumption("C18 history sweep: entry points " + strings.Join(rootNames, ", "))
	P.usedAssumption("call-graph frames: reflection-based method calls, unsafe and cgo are not modelled; library callbacks are limited to function values whose type names no yq type and to methods of interfaces declared outside yq")
	return out
}

// c18DecoderReset: a decoder object is reused for every file (and the load operators share one per lexer rule
// for the whole process). Its state must not leak from one input to the next: every field that anything other
// than the constructor stores into has to be assigned by Init on every path that returns nil. One obligation
// per mutable field of every Decoder implementation.
func c18DecoderReset(P *Program, tier string) []extraResult {
	t0 := time.Now()
	G := P.reach()
	G.mu.Lock()
	defer G.mu.Unlock()
	var allowed c18Allowed
	if data, err := os.ReadFile(filepath.Join(P.verif, "tables", "c18_allowed.json")); err == nil {
		json.Unmarshal(data, &allowed)
	}
	var yqlib *ssa.Package
	for _, sp := range P.spkgs {
		if sp != nil && sp.Pkg.Path() == yqModule+"/pkg/yqlib" {
			yqlib = sp
		}
	}
	if yqlib == nil {
		return nil
	}
	tn, ok := yqlib.Pkg.Scope().Lookup("Decoder").(*types.TypeName)
	if !ok {
		return []extraResult{{Name: "reset/setup", Kind: "callgraph", OK: false, Detail: "interface Decoder not found"}}
	}
	it := tn.Type().Underlying().(*types.Interface)
	var initM *types.Func
	for i := 0; i < it.NumMethods(); i++ {
		if it.Method(i).Name() == "Init" {
			initM = it.Method(i)
		}
	}
	impls, _ := G.implementations(tn.Type(), initM)
	var out []extraResult
	for _, initFn := range impls {
		if len(initFn.Params) == 0 {
			continue
		}
		recv := initFn.Params[0]
		st, ok := deref(recv.Type()).Underlying().(*types.Struct)
		if !ok {
			continue
		}
		owner := P.relType(deref(recv.Type()))
		// blocks of Init that dominate every successful return
		var okReturns []*ssa.BasicBlock
		for _, b := range initFn.Blocks {
			if r, isRet := b.Instrs[len(b.Instrs)-1].(*ssa.Return); isRet && len(r.Results) == 1 {
				if c, isC := r.Results[0].(*ssa.Const); isC && c.IsNil() {
					okReturns = append(okReturns, b)
				}
			}
		}
		assigned := map[int]bool{}
		for _, b := range initFn.Blocks {
			dominatesAll := len(okReturns) > 0
			for _, rb := range okReturns {
				if b != rb && !b.Dominates(rb) {
					dominatesAll = false
				}
			}
			if !dominatesAll {
				continue
			}
			for _, in := range b.Instrs {
				if s, isStore := in.(*ssa.Store); isStore {
					if fa, isFA := s.Addr.(*ssa.FieldAddr); isFA && fa.X == ssa.Value(recv) {
						assigned[fa.Field] = true
					}
				}
			}
		}
		for i := 0; i < st.NumFields(); i++ {
			key := owner + "." + st.Field(i).Name()
			var writers []string
			for f, where := range G.writers[key] {
				writers = append(writers, P.relName(f)+" ("+where+")")
			}
			sort.Strings(writers)
			if len(writers) == 0 {
				continue // set by the constructor only: configuration, not state
			}
			name := "reset/" + key
			if assigned[i] {
				out = append(out, extraResult{Name: name, Kind: "callgraph", OK: true, Detail: "Init assigns " + key + " on every path that returns nil; writers: " + strings.Join(writers, "; "), Ms: time.Since(t0).Milliseconds()})
				continue
			}
			detail := key + " is stored into by " + strings.Join(writers, "; ") + " but Init does not assign it on every successful path: a second input sees what the first left"
			if why, has := allowed.Allowed[name]; has {
				P.usedAssumption("C18 decoder reset: " + key + " tolerated: " + why)
				out = append(out, extraResult{Name: name, Kind: "callgraph", OK: true, Detail: "allowed: " + why + " — " + detail, Ms: time.Since(t0).Milliseconds()})
				continue
			}
			out = append(out, extraResult{Name: name, Kind: "callgraph", OK: false, Detail: detail, Ms: time.Since(t0).Milliseconds()})
		}
	}
	sort.Slice(out, func(i, j int) bool { return out[i].Name < out[j].Name })
	return out
}

func init() {
	extraChecks["C18"] = append(extraChecks["C18"], c18Sweep, c18DecoderReset)
}

// c18LexerActions: every lexer action (a function of the type yqAction, func(lexer.Token) (*token, error))
// must hand back a token of its own: the token, its Operation and its AssignOperation are allocated by that
// very call. handleToken later writes into them (UpdateAssign, ...), so an action that hands out an object it
// keeps (one allocated when the rule table is built, say) would let one parsed expression rewrite another.
// One synthetic contract, checked without annotation against every function of that signature.
func c18LexerActions(P *Program, tier string) []extraResult {
	t0 := time.Now()
	txt := "result1 != nil || (result0 != nil && fresh(result0) && (result0.Operation == nil || fresh(result0.Operation)) && (result0.AssignOperation == nil || fresh(result0.AssignOperation)))"
	var names []string
	for name, fn := range P.funcs {
		sig := fn.Signature
		if sig.Recv() != nil || sig.Params().Len() != 1 || sig.Results().Len() != 2 || len(fn.Blocks) == 0 {
			continue
		}
		if !strings.HasSuffix(types.TypeString(sig.Params().At(0).Type(), nil), "lexer.Token") || !strings.HasSuffix(types.TypeString(sig.Results().At(0).Type(), nil), "yqlib.token") {
			continue
		}
		if P.getContract(name) != nil {
			continue
		}
		names = append(names, name)
	}
	sort.Strings(names)
	dir, cleanup := tempDir()
	defer cleanup()
	var out []extraResult
	var mu sync.Mutex
	var wg sync.WaitGroup
	sem := make(chan struct{}, 8)
	okc := 0
	for _, n := range names {
		wg.Add(1)
		go func(n string) {
			defer wg.Done()
			sem <- struct{}{}
			defer func() { <-sem }()
			con := &Contract{FuncName: n, Loops: map[int]*LoopContract{}, Lets: map[string]ast.Expr{}, Flags: map[string]bool{"synth": true, "noframe": true},
				Ensures: []*Clause{{Kind: "ensures", Label: "a-token-of-its-own", Text: txt, Expr: mustParse(txt)}}}
			vc, err := P.generateFixpoint(P.funcs[n], con, genOpts{functional: true}, 10000)
			if err != nil {
				mu.Lock()
				out = append(out, extraResult{Name: "actions/" + n + "/generate", Kind: "sweep", OK: false, Detail: err.Error()})
				mu.Unlock()
				return
			}
			var sel []*Obligation
			for _, o := range vc.Obls {
				if o.Kind == "post" {
					sel = append(sel, o)
				}
			}
			for _, r := range P.discharge(sel, dir, 10000, false, "") {
				mu.Lock()
				if r.OK {
					okc++
				} else {
					out = append(out, extraResult{Name: "actions/" + r.Obl.Name, Kind: "sweep", OK: false,
						Detail: fmt.Sprintf("%s:%d: this lexer action may return a token, Operation or AssignOperation that it did not allocate in this call\nverdict %s %v", shortFile(r.Obl.Pos.Filename), r.Obl.Pos.Line, r.Res.Verdict, r.Res.All)})
				}
				mu.Unlock()
			}
		}(n)
	}
	wg.Wait()
	sort.Slice(out, func(i, j int) bool { return out[i].Name < out[j].Name })
	out = append([]extraResult{{Name: "actions/sweep", Kind: "sweep", OK: okc > 10, Count: okc,
		Detail: fmt.Sprintf("%d lexer actions checked without annotation against 'returns a token, Operation and AssignOperation of its own'; %d return sites discharged, %d not", len(names), okc, len(out))}}, out...)
	for i := range out {
		out[i].Ms = time.Since(t0).Milliseconds()
	}
	return out
}

func init() {
	extraChecks["C18"] = append(extraChecks["C18"], c18LexerActions)
}
