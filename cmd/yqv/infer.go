package main

// Frame-summary inference (Houdini over functions): for functions that have no hand-written contract the
// engine synthesises one of three frame contracts — PURE (writes no pre-existing document node or list),
// RO-IF (pure when its Context argument has DontAutoCreate), IMPURE — plus "pointer results are fresh",
// starts optimistic, verifies each function's body against its own synthesised contract while assuming the
// callees' synthesised contracts, and demotes whatever fails until nothing changes. What survives is proved
// (greatest fixed point; sound for partial correctness by induction on the depth of the call stack).

import (
	"fmt"
	"go/ast"
	"go/parser"
	"go/types"
	"os"
	"sort"
	"strings"
	"sync"

	"golang.org/x/tools/go/ssa"
)

type frameClass int

const (
	clsPure frameClass = iota
	clsROIf
	clsImpure
)

func (c frameClass) String() string { return [...]string{"pure", "ro-if-DontAutoCreate", "impure"}[c] }

type inferred struct {
	fn          *ssa.Function
	subset      int      // index into subsets(nodePs): which *CandidateNode parameters' direct fields it may write
	nodePs      []string // names of *CandidateNode parameters
	class       frameClass
	fresh       []bool // per result: pointer result is fresh-or-nil
	ctxName     string // name of the Context parameter ("" if none)
	reason      string // why it was demoted
	override    *frameOverride
	unexpected  []string // failing obligations of an overridden function that are not listed
	expectedHit []string
	lastTry     bool
	pureReason  string // the obligation that failed when the function was tried as PURE
	keepsMode   bool   // (Context, error) results: on success the returned context has the DontAutoCreate of the incoming one
	allBad      []string
	con         *Contract
}

func mustParse(s string) ast.Expr {
	e, err := parser.ParseExpr(s)
	if err != nil {
		panic(err)
	}
	return e
}

func (P *Program) synthContract(inf *inferred) *Contract {
	fn := inf.fn
	c := &Contract{FuncName: P.relName(fn), Loops: map[int]*LoopContract{}, Lets: map[string]ast.Expr{}, Flags: map[string]bool{"synth": true, "docframe-only": true}}
	switch inf.class {
	case clsROIf:
		c.ReadonlyIf = &Clause{Kind: "readonly-if", Text: inf.ctxName + ".DontAutoCreate", Expr: mustParse(inf.ctxName + ".DontAutoCreate")}
	case clsImpure:
		c.ReadonlyIf = &Clause{Kind: "readonly-if", Text: "false", Expr: mustParse("false")}
	}
	if inf.class != clsImpure {
		for _, pn := range inf.writable() {
			txt := pn + ".all"
			c.Modifies = append(c.Modifies, &Clause{Kind: "modifies", Text: txt, Expr: mustParse(txt)})
			txt2 := pn + ".Content[*]"
			c.Modifies = append(c.Modifies, &Clause{Kind: "modifies", Text: txt2, Expr: mustParse(pn + ".Content[STAR]")})
			c.HasMod = true
		}
	}
	if inf.keepsMode {
		txt := "result1 != nil || !" + inf.ctxName + ".DontAutoCreate || result0.DontAutoCreate"
		c.Ensures = append(c.Ensures, &Clause{Kind: "ensures", Label: "keeps-mode", Text: txt, Expr: mustParse(txt)})
	}
	P.cmu.RLock()
	ov := P.overlays[c.FuncName]
	P.cmu.RUnlock()
	if ov != nil {
		c.Sites, c.Loops, c.Lets, c.Props = ov.Sites, ov.Loops, ov.Lets, ov.Props
		c.Requires = append(c.Requires, ov.Requires...)
		c.Assumes = append(c.Assumes, ov.Assumes...)
		for _, f := range []string{"nosafety", "nopre"} {
			if ov.flag(f) {
				c.Flags[f] = true
			}
		}
	}
	res := fn.Signature.Results()
	for i := 0; i < res.Len(); i++ {
		if i < len(inf.fresh) && inf.fresh[i] {
			name := fmt.Sprintf("result%d", i)
			txt := fmt.Sprintf("%s == nil || fresh(%s)", name, name)
			c.Ensures = append(c.Ensures, &Clause{Kind: "ensures", Label: fmt.Sprintf("fresh-result%d", i), Text: txt, Expr: mustParse(txt)})
		}
	}
	return c
}

func isNodePtr(t types.Type) bool {
	return strings.HasSuffix(types.TypeString(t, nil), "yqlib.CandidateNode") && func() bool { _, ok := t.Underlying().(*types.Pointer); return ok }()
}

// inferFrames computes the summaries for every function reachable from roots that has no hand-written contract.
// frameOverride: a function with a known frame defect is held at the class it is meant to have; its listed
// obligations are expected to fail (known findings), any other failing obligation is new.
type frameOverride struct {
	Class    string   `json:"class"` // "pure" | "ro-if"
	Expected []string `json:"expected"`
	What     string   `json:"what"`
	Witness  string   `json:"witness"`
}

func (P *Program) inferFrames(roots []*ssa.Function, timeoutMs int) map[*ssa.Function]*inferred {
	return P.inferFramesWith(roots, timeoutMs, nil)
}

func (P *Program) inferFramesWith(roots []*ssa.Function, timeoutMs int, overrides map[string]frameOverride) map[*ssa.Function]*inferred {
	// universe: static call graph closure (direct calls, closures created, functions referenced as values)
	U := map[*ssa.Function]*inferred{}
	var order []*ssa.Function
	handSeen := map[*ssa.Function]bool{}
	var visit func(f *ssa.Function)
	callers := map[*ssa.Function]map[*ssa.Function]bool{}
	visit = func(f *ssa.Function) {
		if f == nil || len(f.Blocks) == 0 || U[f] != nil {
			return
		}
		top := f
		for top.Parent() != nil {
			top = top.Parent()
		}
		if top.Pkg == nil || !P.isYq(top.Pkg.Pkg.Path()) {
			return
		}
		// an overlay contract (site assertions and loop invariants only, flag overlay) leaves the frame to the
		// inference: the function is inferred like one without a contract and the overlay's clauses ride along
		// on the synthesised contract
		if hc := P.contractFor(f); hc != nil && hc.flag("overlay") {
			P.cmu.Lock()
			if P.overlays == nil {
				P.overlays = map[string]*Contract{}
			}
			P.overlays[P.relName(f)] = hc
			P.cmu.Unlock()
		}
		P.cmu.RLock()
		_, isOverlay := P.overlays[P.relName(f)]
		P.cmu.RUnlock()
		hand := P.contractFor(f) != nil && !isOverlay
		if hand {
			if handSeen[f] {
				return
			}
			handSeen[f] = true
			// a hand-written contract that states no frame at all (noframe, no modifies, not read-only-if, not
			// trusted) would hide this function's stores from the read-only check of everything that calls it
			if hc := P.contractFor(f); hc != nil && hc.flag("noframe") && !hc.flag("trusted") && !hc.HasMod && !hc.ModNothing && hc.ReadonlyIf == nil && len(hc.Modifies) == 0 {
				P.cmu.Lock()
				if P.framelessHand == nil {
					P.framelessHand = map[string]bool{}
				}
				P.framelessHand[P.relName(f)] = true
				P.cmu.Unlock()
			}
		}
		inf := &inferred{fn: f, class: clsPure}
		for _, p := range f.Params {
			ts := types.TypeString(deref(p.Type()), nil)
			if strings.HasSuffix(ts, "yqlib.Context") && inf.ctxName == "" && p.Name() != "_" {
				inf.ctxName = p.Name()
			}
			if isNodePtr(p.Type()) && p.Name() != "_" {
				inf.nodePs = append(inf.nodePs, p.Name())
			}
		}
		res := f.Signature.Results()
		for i := 0; i < res.Len(); i++ {
			inf.fresh = append(inf.fresh, isNodePtr(res.At(i).Type()))
		}
		if inf.ctxName != "" && res.Len() == 2 && strings.HasSuffix(types.TypeString(res.At(0).Type(), nil), "yqlib.Context") && types.TypeString(res.At(1).Type(), nil) == "error" {
			inf.keepsMode = true
		}
		if ov, ok := overrides[P.relName(f)]; ok {
			o := ov
			inf.override = &o
			if ov.Class == "ro-if" && inf.ctxName != "" {
				inf.class = clsROIf
			}
		}
		if !hand {
			U[f] = inf
			order = append(order, f)
		}
		for _, b := range f.Blocks {
			for _, in := range b.Instrs {
				for _, op := range in.Operands(nil) {
					if op == nil || *op == nil {
						continue
					}
					var g *ssa.Function
					switch v := (*op).(type) {
					case *ssa.Function:
						g = v
					case *ssa.MakeClosure:
						g = v.Fn.(*ssa.Function)
					}
					if g != nil {
						if callers[g] == nil {
							callers[g] = map[*ssa.Function]bool{}
						}
						callers[g][f] = true
						visit(g)
					}
				}
			}
		}
	}
	for _, r := range roots {
		visit(r)
	}
	sort.Slice(order, func(i, j int) bool { return P.relName(order[i]) < P.relName(order[j]) })
	install := func(inf *inferred) {
		inf.con = P.synthContract(inf)
		P.setContract(P.relName(inf.fn), inf.con)
	}
	// callees within the universe
	callees := map[*ssa.Function][]*ssa.Function{}
	for g, cs := range callers {
		for c := range cs {
			if U[g] != nil && U[c] != nil {
				callees[c] = append(callees[c], g)
			}
		}
	}
	// strongly connected components (Tarjan), emitted callees-first
	index := 0
	idx := map[*ssa.Function]int{}
	low := map[*ssa.Function]int{}
	onStack := map[*ssa.Function]bool{}
	var stack []*ssa.Function
	var sccs [][]*ssa.Function
	var strong func(v *ssa.Function)
	strong = func(v *ssa.Function) {
		index++
		idx[v], low[v] = index, index
		stack = append(stack, v)
		onStack[v] = true
		cs := callees[v]
		sort.Slice(cs, func(i, j int) bool { return P.relName(cs[i]) < P.relName(cs[j]) })
		for _, w := range cs {
			if idx[w] == 0 {
				strong(w)
				if low[w] < low[v] {
					low[v] = low[w]
				}
			} else if onStack[w] && idx[w] < low[v] {
				low[v] = idx[w]
			}
		}
		if low[v] == idx[v] {
			var comp []*ssa.Function
			for {
				w := stack[len(stack)-1]
				stack = stack[:len(stack)-1]
				onStack[w] = false
				comp = append(comp, w)
				if w == v {
					break
				}
			}
			sccs = append(sccs, comp)
		}
	}
	for _, f := range order {
		if idx[f] == 0 {
			strong(f)
		}
	}
	sccOf := map[*ssa.Function]int{}
	for i, comp := range sccs {
		for _, f := range comp {
			sccOf[f] = i
		}
	}
	opts := genOpts{frames: true, functional: true, assumeTypeAsserts: true}
	dir, cleanup := tempDir()
	defer cleanup()
	// verify one function against its currently installed candidate; returns (frame failure, fresh failures)
	verify := func(f *ssa.Function) (string, []int, error) {
		inf := U[f]
		vc, err := P.generateFixpoint(f, inf.con, opts, timeoutMs)
		if err != nil {
			return "", nil, err
		}
		inf.allBad = nil
		var sel []*Obligation
		for _, o := range vc.Obls {
			if frameKinds[o.Kind] || (o.Kind == "post" && (strings.HasPrefix(o.Expr, "fresh-result") || strings.HasPrefix(o.Expr, "keeps-mode"))) {
				sel = append(sel, o)
			}
		}
		res := P.discharge(sel, dir, timeoutMs, false, "")
		frameBad := ""
		var freshBad []int
		for _, r := range res {
			if r.OK {
				continue
			}
			if r.Obl.Kind == "post" && strings.HasPrefix(r.Obl.Expr, "keeps-mode") {
				if dbg := os.Getenv("YQV_INFER_TRACE"); dbg != "" && strings.Contains(P.relName(f), dbg) {
					fmt.Fprintf(os.Stderr, "TRACE %s keeps-mode verdict %s %v notes=%v\n", P.relName(f), r.Res.Verdict, r.Res.All, vc.Notes)
				}
				freshBad = append(freshBad, -1)
			} else if r.Obl.Kind == "post" {
				var k int
				fmt.Sscanf(r.Obl.Expr, "fresh-result%d", &k)
				freshBad = append(freshBad, k)
			} else {
				if frameBad == "" {
					frameBad = r.Obl.Name
				}
				inf.allBad = append(inf.allBad, r.Obl.Name)
			}
		}
		return frameBad, freshBad, nil
	}
	demote := func(inf *inferred, reason string) {
		inf.reason = reason
		if inf.class == clsPure && inf.subset == 0 {
			inf.pureReason = reason
		}
		switch {
		case inf.class == clsPure && inf.subset == 0 && inf.ctxName != "":
			inf.class = clsROIf
		case inf.class != clsImpure && !inf.lastTry && inf.subset+1 < (1<<len(inf.nodePs)) && len(inf.nodePs) <= 3:
			inf.subset++
			inf.class = clsPure
		case inf.class == clsPure && inf.ctxName != "" && !inf.lastTry:
			inf.class = clsROIf
			inf.lastTry = true
		default:
			inf.class = clsImpure
		}
	}
	processSCC := func(comp []*ssa.Function) {
		for _, f := range comp {
			install(U[f])
		}
		dirty := map[*ssa.Function]bool{}
		for _, f := range comp {
			dirty[f] = true
		}
		for round := 0; round < 40 && len(dirty) > 0; round++ {
			var work []*ssa.Function
			for _, f := range comp {
				if dirty[f] {
					work = append(work, f)
				}
			}
			dirty = map[*ssa.Function]bool{}
			for _, f := range work {
				inf := U[f]
				if inf.class == clsImpure && !anyTrue(inf.fresh) && !inf.keepsMode {
					continue
				}
				frameBad, freshBad, err := verify(f)
				changed := false
				if err != nil {
					inf.class = clsImpure
					for k := range inf.fresh {
						inf.fresh[k] = false
					}
					inf.reason = "VC generation failed: " + err.Error()
					changed = true
				}
				if frameBad != "" && inf.override != nil {
					// held at its intended class: record which failures are the known ones
					inf.unexpected, inf.expectedHit = nil, nil
					for _, b := range inf.allBad {
						known := false
						for _, e := range inf.override.Expected {
							if e == b {
								known = true
							}
						}
						if known {
							inf.expectedHit = append(inf.expectedHit, b)
						} else {
							inf.unexpected = append(inf.unexpected, b)
						}
					}
					frameBad = ""
				}
				if frameBad != "" {
					if dbg := os.Getenv("YQV_INFER_TRACE"); dbg != "" && strings.Contains(P.relName(f), dbg) {
						fmt.Fprintf(os.Stderr, "TRACE %s candidate=%s writes=%v fails: %s\n", P.relName(f), inf.class, inf.writable(), frameBad)
					}
					demote(inf, frameBad)
					changed = true
				}
				for _, k := range freshBad {
					if k == -1 {
						if dbg := os.Getenv("YQV_INFER_TRACE"); dbg != "" && strings.Contains(P.relName(f), dbg) {
							fmt.Fprintf(os.Stderr, "TRACE %s candidate=%s keeps-mode fails\n", P.relName(f), inf.class)
						}
						if inf.keepsMode {
							inf.keepsMode = false
							changed = true
						}
						continue
					}
					if k < len(inf.fresh) && inf.fresh[k] {
						inf.fresh[k] = false
						changed = true
					}
				}
				if changed {
					install(inf)
					for _, g := range comp {
						dirty[g] = true // members of the component depend on each other
					}
				}
			}
		}
	}
	// schedule components: a component is ready when every callee component is done
	nS := len(sccs)
	deps := make([]map[int]bool, nS)
	rdeps := make([][]int, nS)
	for i, comp := range sccs {
		deps[i] = map[int]bool{}
		for _, f := range comp {
			for _, c := range callees[f] {
				if j := sccOf[c]; j != i {
					deps[i][j] = true
				}
			}
		}
	}
	for i := range deps {
		for j := range deps[i] {
			rdeps[j] = append(rdeps[j], i)
		}
	}
	remaining := make([]int, nS)
	ready := make(chan int, nS)
	for i := range deps {
		remaining[i] = len(deps[i])
		if remaining[i] == 0 {
			ready <- i
		}
	}
	var mu sync.Mutex
	var wg sync.WaitGroup
	done := 0
	doneCh := make(chan struct{})
	workers := 14
	for w := 0; w < workers; w++ {
		wg.Add(1)
		go func() {
			defer wg.Done()
			for i := range ready {
				processSCC(sccs[i])
				mu.Lock()
				done++
				for _, k := range rdeps[i] {
					remaining[k]--
					if remaining[k] == 0 {
						ready <- k
					}
				}
				if done == nS {
					close(doneCh)
				}
				mu.Unlock()
			}
		}()
	}
	if nS > 0 {
		<-doneCh
	}
	close(ready)
	wg.Wait()
	if os.Getenv("YQV_DEBUG") != "" {
		fmt.Fprintf(os.Stderr, "inference: %d functions in %d components\n", len(order), nS)
	}
	return U
}

func anyTrue(b []bool) bool {
	for _, x := range b {
		if x {
			return true
		}
	}
	return false
}

// readonlyHandlers: the handlers of the operators listed in tables/readonly_ops.json.
func (P *Program) readonlyHandlers() []*ssa.Function { return P.handlersOf("ops") }

func (P *Program) handlersOf(key string) []*ssa.Function {
	data, err := os.ReadFile(P.verif + "/tables/readonly_ops.json")
	if err != nil {
		return nil
	}
	var raw map[string]interface{}
	if err := jsonUnmarshal(data, &raw); err != nil {
		return nil
	}
	var t struct{ Ops []string }
	if l, ok := raw[key].([]interface{}); ok {
		for _, x := range l {
			if s, ok := x.(string); ok {
				t.Ops = append(t.Ops, s)
			}
		}
	}
	tab, _ := P.opTypeTable()
	h := map[string]string{}
	for _, l := range tab {
		h[l.Var] = l.Handler
	}
	seen := map[string]bool{}
	var out []*ssa.Function
	for _, op := range t.Ops {
		if fn := P.funcs[h[op]]; fn != nil && !seen[h[op]] {
			seen[h[op]] = true
			out = append(out, fn)
		}
	}
	return out
}

// writable: the node parameters whose direct fields the current candidate contract lets the function write.
func (inf *inferred) writable() []string {
	// subsets ordered by size then position
	n := len(inf.nodePs)
	if n == 0 || inf.subset == 0 {
		return nil
	}
	var masks []int
	for size := 0; size <= n; size++ {
		for m := 0; m < (1 << n); m++ {
			if popcount(m) == size {
				masks = append(masks, m)
			}
		}
	}
	if inf.subset >= len(masks) {
		return inf.nodePs
	}
	m := masks[inf.subset]
	var out []string
	for i, p := range inf.nodePs {
		if m&(1<<i) != 0 {
			out = append(out, p)
		}
	}
	return out
}

func popcount(m int) int {
	c := 0
	for ; m > 0; m >>= 1 {
		c += m & 1
	}
	return c
}
