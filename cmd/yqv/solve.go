package main

// Solver racing: each query is sent to z3-new (5.1.0), z3 (4.8.12) and cvc5 (1.0.x) concurrently.

import (
	"bytes"
	"context"
	"crypto/sha256"
	"encoding/hex"
	"fmt"
	"os"
	"os/exec"
	"path/filepath"
	"strings"
	"sync"
	"time"
)

type solverResult struct {
	Verdict string // unsat sat unknown timeout error
	Solver  string
	Ms      int64
	Output  string
	All     map[string]string
}

type solverSpec struct {
	name string
	args func(timeoutMs int, file string) []string
	prep func(q string) string
}

var solvers = []solverSpec{
	{"z3-new", func(t int, f string) []string { return []string{"z3-new", fmt.Sprintf("-t:%d", t), f} }, nil},
	{"z3", func(t int, f string) []string { return []string{"z3", fmt.Sprintf("-t:%d", t), f} }, nil},
	{"cvc5", func(t int, f string) []string {
		return []string{"cvc5", "--full-saturate-quant", "--strings-exp", fmt.Sprintf("--tlimit=%d", t), f}
	}, func(q string) string { return "(set-option :produce-models true)\n(set-logic ALL)\n" + q }},
}

var solverSem = make(chan struct{}, 16)

// runQuery races the solvers on one query. all=true waits for every solver (thorough: disagreement check).
var cacheDir = ""

func cacheKey(query string, only []string) string {
	h := sha256.Sum256([]byte(strings.Join(only, ",") + "\x00" + query))
	return hex.EncodeToString(h[:16])
}

// runQuery with a verdict cache keyed by the exact query text: an identical query has an identical answer, so a
// cached unsat/sat is as good as a fresh one (the VC is always regenerated from the current tree).
func runQuery(dir, name, query string, timeoutMs int, all bool, only []string) solverResult {
	if cacheDir != "" && !all {
		k := filepath.Join(cacheDir, cacheKey(query, only))
		if data, err := os.ReadFile(k); err == nil {
			parts := strings.SplitN(string(data), " ", 3)
			if len(parts) >= 2 && (parts[0] == "unsat" || parts[0] == "sat") {
				return solverResult{Verdict: parts[0], Solver: parts[1] + "(cached)", All: map[string]string{parts[1]: parts[0]}, Output: parts[0] + "\n"}
			}
		}
		r := runQueryUncached(dir, name, query, timeoutMs, all, only)
		if r.Verdict == "unsat" || r.Verdict == "sat" {
			os.MkdirAll(cacheDir, 0o755)
			os.WriteFile(k, []byte(r.Verdict+" "+r.Solver+" "), 0o644)
		}
		return r
	}
	return runQueryUncached(dir, name, query, timeoutMs, all, only)
}

func runQueryUncached(dir, name, query string, timeoutMs int, all bool, only []string) solverResult {
	type one struct {
		solver, verdict, out string
		ms                   int64
	}
	ctx, cancel := context.WithCancel(context.Background())
	defer cancel()
	ch := make(chan one, len(solvers))
	var wg sync.WaitGroup
	n := 0
	for _, s := range solvers {
		if len(only) > 0 && !contains(only, s.name) {
			continue
		}
		n++
		s := s
		wg.Add(1)
		go func() {
			defer wg.Done()
			solverSem <- struct{}{}
			defer func() { <-solverSem }()
			if ctx.Err() != nil {
				ch <- one{s.name, "cancelled", "", 0}
				return
			}
			q := query
			if s.prep != nil {
				q = s.prep(q)
			}
			f := filepath.Join(dir, sanitizeFile(name)+"."+s.name+".smt2")
			if err := os.WriteFile(f, []byte(q), 0o644); err != nil {
				ch <- one{s.name, "error", err.Error(), 0}
				return
			}
			args := s.args(timeoutMs, f)
			c, cancel2 := context.WithTimeout(ctx, time.Duration(timeoutMs+2000)*time.Millisecond)
			defer cancel2()
			cmd := exec.CommandContext(c, args[0], args[1:]...)
			var out bytes.Buffer
			cmd.Stdout = &out
			cmd.Stderr = &out
			t0 := time.Now()
			_ = cmd.Run()
			ms := time.Since(t0).Milliseconds()
			first := ""
			for _, ln := range strings.Split(out.String(), "\n") {
				ln = strings.TrimSpace(ln)
				if ln == "" || strings.HasPrefix(ln, "WARNING") {
					continue
				}
				first = ln
				break
			}
			v := "unknown"
			switch {
			case first == "unsat":
				v = "unsat"
			case first == "sat":
				v = "sat"
			case c.Err() != nil || strings.Contains(first, "timeout") || strings.Contains(out.String(), "interrupted by timeout"):
				v = "timeout"
			case strings.HasPrefix(first, "(error") || strings.Contains(first, "rror"):
				v = "error"
			}
			if ctx.Err() != nil && v != "unsat" && v != "sat" {
				v = "cancelled"
			}
			ch <- one{s.name, v, out.String(), ms}
		}()
	}
	res := solverResult{Verdict: "unknown", All: map[string]string{}}
	got := 0
	decided := false
	for got < n {
		o := <-ch
		got++
		res.All[o.solver] = o.verdict
		if o.verdict == "unsat" || o.verdict == "sat" {
			if !decided {
				decided = true
				res.Verdict, res.Solver, res.Ms, res.Output = o.verdict, o.solver, o.ms, o.out
				if !all {
					cancel()
				}
			} else if o.verdict != res.Verdict {
				res.Verdict = "disagree"
				res.Output += "\n--- " + o.solver + " says " + o.verdict + "\n" + o.out
			}
		} else if !decided {
			if res.Output == "" || o.verdict == "error" {
				res.Output += "--- " + o.solver + ": " + o.verdict + "\n" + truncate(o.out, 600) + "\n"
			}
			if o.verdict == "timeout" && res.Verdict == "unknown" {
				res.Verdict = "timeout"
			}
		}
	}
	wg.Wait()
	return res
}

func contains(xs []string, x string) bool {
	for _, y := range xs {
		if y == x {
			return true
		}
	}
	return false
}

func truncate(s string, n int) string {
	if len(s) <= n {
		return s
	}
	return s[:n] + "…"
}

func sanitizeFile(s string) string {
	var b strings.Builder
	for _, r := range s {
		switch {
		case r >= 'a' && r <= 'z', r >= 'A' && r <= 'Z', r >= '0' && r <= '9', r == '_', r == '-', r == '.':
			b.WriteRune(r)
		default:
			b.WriteByte('_')
		}
	}
	out := b.String()
	if len(out) > 150 {
		out = out[:150] + fmt.Sprintf("_%x", hashString(s))
	}
	return out
}

func hashString(s string) uint32 {
	var h uint32 = 2166136261
	for i := 0; i < len(s); i++ {
		h ^= uint32(s[i])
		h *= 16777619
	}
	return h
}
