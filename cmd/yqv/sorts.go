package main

// Mapping of Go types to SMT sorts, zero values and heap-variable names.

import (
	"fmt"
	"go/types"
	"sort"
	"strings"
	"sync"
)

type sortReg struct {
	structs   map[string]*types.Struct // datatype name -> struct
	structTy  map[string]types.Type
	order     []string // declaration order (dependencies first)
	typeTags  map[string]int
	tagNames  []string
	boxSorts  map[string]bool
	elemSorts map[string]string // heap var name for element arrays -> elem sort
	boxAxioms []string
	once      sync.Once
	cached    string
}

func newSortReg() *sortReg {
	return &sortReg{structs: map[string]*types.Struct{}, structTy: map[string]types.Type{}, typeTags: map[string]int{}, boxSorts: map[string]bool{}, elemSorts: map[string]string{}}
}

func typeKey(t types.Type) string {
	s := types.TypeString(t, func(p *types.Package) string { return p.Name() })
	s = strings.ReplaceAll(s, "interface{}", "any")
	return sanitize(s)
}

// sortOf returns the SMT sort used for values of Go type t.
func (r *sortReg) sortOf(t types.Type) string {
	switch u := t.Underlying().(type) {
	case *types.Basic:
		switch {
		case u.Info()&types.IsBoolean != 0:
			return "Bool"
		case u.Info()&types.IsInteger != 0:
			return "Int"
		case u.Info()&types.IsFloat != 0:
			return "Real"
		case u.Info()&types.IsString != 0:
			return "String"
		case u.Kind() == types.UnsafePointer:
			return "Int"
		case u.Kind() == types.UntypedNil:
			return "Int"
		}
		return "Int"
	case *types.Pointer, *types.Map, *types.Chan, *types.Signature:
		return "Int"
	case *types.Slice:
		return "Slice"
	case *types.Interface:
		return "Iface"
	case *types.Struct:
		name := "S." + typeKey(t)
		if _, ok := r.structs[name]; !ok {
			r.structs[name] = u
			r.structTy[name] = t
			for i := 0; i < u.NumFields(); i++ {
				r.sortOf(u.Field(i).Type())
			}
			r.order = append(r.order, name)
		}
		return name
	case *types.Array:
		return "(Array Int " + r.sortOf(u.Elem()) + ")"
	case *types.Tuple:
		return "Tuple"
	case *types.TypeParam:
		return "Iface"
	}
	return "Int"
}

func (r *sortReg) fieldAcc(structSort string, i int) string {
	st := r.structs[structSort]
	return structSort + "." + st.Field(i).Name()
}

func (r *sortReg) zero(t types.Type) string {
	switch u := t.Underlying().(type) {
	case *types.Basic:
		switch {
		case u.Info()&types.IsBoolean != 0:
			return "false"
		case u.Info()&types.IsInteger != 0:
			return "0"
		case u.Info()&types.IsFloat != 0:
			return "0.0"
		case u.Info()&types.IsString != 0:
			return `""`
		}
		return "0"
	case *types.Slice:
		return "(mk-slice 0 0 0)"
	case *types.Interface, *types.TypeParam:
		return "(mk-iface 0 0)"
	case *types.Struct:
		s := r.sortOf(t)
		args := make([]string, u.NumFields())
		for i := range args {
			args[i] = r.zero(u.Field(i).Type())
		}
		if len(args) == 0 {
			return "mk." + s
		}
		return app("mk."+s, args...)
	case *types.Array:
		return app("(as const "+r.sortOf(t)+")", r.zero(u.Elem()))
	}
	return "0"
}

// typeTag gives each concrete Go type a positive integer used as the dynamic type of an interface value.
func (r *sortReg) typeTag(t types.Type) string {
	k := types.TypeString(t, nil)
	if id, ok := r.typeTags[k]; ok {
		return fmt.Sprint(id)
	}
	id := len(r.typeTags) + 1
	r.typeTags[k] = id
	r.tagNames = append(r.tagNames, k)
	return fmt.Sprint(id)
}

// box/unbox convert between a value sort and the Int payload of an interface value.
func (r *sortReg) box(t types.Type, v string) string {
	s := r.sortOf(t)
	if s == "Int" {
		return v
	}
	r.boxSorts[s] = true
	return app("box."+sortSym(s), v)
}

func (r *sortReg) unbox(t types.Type, v string) string {
	s := r.sortOf(t)
	if s == "Int" {
		return v
	}
	r.boxSorts[s] = true
	return app("unbox."+sortSym(s), v)
}

func sortSym(s string) string {
	s = strings.NewReplacer("(", "", ")", "", " ", ".").Replace(s)
	return s
}

// decls renders datatype declarations and box functions.
func (r *sortReg) declText() string {
	r.once.Do(func() { r.cached = r.declTextUncached() })
	return r.cached
}

func (r *sortReg) declTextUncached() string {
	var b strings.Builder
	for _, name := range r.order {
		st := r.structs[name]
		var fs []string
		for i := 0; i < st.NumFields(); i++ {
			fs = append(fs, fmt.Sprintf("(%s %s)", r.fieldAcc(name, i), r.sortOf(st.Field(i).Type())))
		}
		fmt.Fprintf(&b, "(declare-datatypes ((%s 0)) (((mk.%s %s))))\n", name, name, strings.Join(fs, " "))
	}
	r.boxAxioms = nil
	var bs []string
	for s := range r.boxSorts {
		bs = append(bs, s)
	}
	sort.Strings(bs)
	for _, s := range bs {
		y := sortSym(s)
		fmt.Fprintf(&b, "(declare-fun box.%s (%s) Int)\n(declare-fun unbox.%s (Int) %s)\n", y, s, y, s)
		r.boxAxioms = append(r.boxAxioms, fmt.Sprintf("(assert (forall ((x %s)) (! (= (unbox.%s (box.%s x)) x) :pattern ((box.%s x)))))\n", s, y, y, y))
	}
	return b.String()
}

// structOf returns the struct type and its datatype sort when t is a struct or pointer to struct.
func structUnder(t types.Type) (*types.Struct, bool) {
	if p, ok := t.Underlying().(*types.Pointer); ok {
		t = p.Elem()
	}
	s, ok := t.Underlying().(*types.Struct)
	return s, ok
}

func deref(t types.Type) types.Type {
	if p, ok := t.Underlying().(*types.Pointer); ok {
		return p.Elem()
	}
	return t
}

// heapField names the heap array that holds field i of struct type t (t is the struct type, possibly named).
func heapField(t types.Type, i int) string {
	st := t.Underlying().(*types.Struct)
	return "H." + typeKey(t) + "." + st.Field(i).Name()
}

func elemHeap(elem types.Type) string { return "E." + typeKey(elem) }
func cellHeap(elem types.Type) string { return "C." + typeKey(elem) }

func isInt(t types.Type) bool {
	b, ok := t.Underlying().(*types.Basic)
	return ok && b.Info()&types.IsInteger != 0
}
func isFloat(t types.Type) bool {
	b, ok := t.Underlying().(*types.Basic)
	return ok && b.Info()&types.IsFloat != 0
}
func isString(t types.Type) bool {
	b, ok := t.Underlying().(*types.Basic)
	return ok && b.Info()&types.IsString != 0
}
func isBool(t types.Type) bool {
	b, ok := t.Underlying().(*types.Basic)
	return ok && b.Info()&types.IsBoolean != 0
}
func isIface(t types.Type) bool {
	_, ok := t.Underlying().(*types.Interface)
	return ok
}

// intRange returns the bit width and signedness of an integer type (int/uint/uintptr are 64 bits).
func intRange(t types.Type) (bits int, signed bool) {
	b := t.Underlying().(*types.Basic)
	switch b.Kind() {
	case types.Int8:
		return 8, true
	case types.Int16:
		return 16, true
	case types.Int32:
		return 32, true
	case types.Int, types.Int64, types.UntypedInt, types.UntypedRune:
		return 64, true
	case types.Uint8:
		return 8, false
	case types.Uint16:
		return 16, false
	case types.Uint32:
		return 32, false
	case types.Uint, types.Uint64, types.Uintptr:
		return 64, false
	}
	return 64, true
}

func wrapTerm(t types.Type, x string) string {
	bits, signed := intRange(t)
	if signed {
		return app(fmt.Sprintf("wrapS%d", bits), x)
	}
	return app(fmt.Sprintf("wrapU%d", bits), x)
}

const preludeText = `
(declare-datatypes ((Slice 0)) (((mk-slice (s.base Int) (s.off Int) (s.len Int)))))
(declare-datatypes ((Iface 0)) (((mk-iface (i.typ Int) (i.val Int)))))
(define-fun nilslice () Slice (mk-slice 0 0 0))
(define-fun niliface () Iface (mk-iface 0 0))
(define-fun wrapS64 ((x Int)) Int (- (mod (+ x 9223372036854775808) 18446744073709551616) 9223372036854775808))
(define-fun wrapS32 ((x Int)) Int (- (mod (+ x 2147483648) 4294967296) 2147483648))
(define-fun wrapS16 ((x Int)) Int (- (mod (+ x 32768) 65536) 32768))
(define-fun wrapS8 ((x Int)) Int (- (mod (+ x 128) 256) 128))
(define-fun wrapU64 ((x Int)) Int (mod x 18446744073709551616))
(define-fun wrapU32 ((x Int)) Int (mod x 4294967296))
(define-fun wrapU16 ((x Int)) Int (mod x 65536))
(define-fun wrapU8 ((x Int)) Int (mod x 256))
(define-fun b2i ((b Bool)) Int (ite b 1 0))
(define-fun sign ((x Int)) Int (ite (< x 0) (- 1) (ite (> x 0) 1 0)))
(define-fun tdiv ((a Int) (b Int)) Int (ite (>= a 0) (div a b) (- (div (- a) b))))
(define-fun tmod ((a Int) (b Int)) Int (- a (* b (tdiv a b))))
(define-fun strcmp ((a String) (b String)) Int (ite (= a b) 0 (ite (str.< a b) (- 1) 1)))
; uninterpreted library functions (assumed contracts are asserted where used)
(declare-fun rnd (Int) Real)
(declare-fun implements (Int Int) Bool)
(declare-fun at (Int Int) Int)
(assert (forall ((o Int) (i Int)) (! (= (at o i) (+ o i)) :pattern ((at o i)))))
; container/list model: an element is identified by (list, index)
(declare-fun elemOf (Int Int) Int)
(declare-fun elList (Int) Int)
(declare-fun elIdx (Int) Int)
`

const listAxioms = `
(assert (forall ((l Int) (i Int)) (! (and (= (elList (elemOf l i)) l) (= (elIdx (elemOf l i)) i) (not (= (elemOf l i) 0))) :pattern ((elemOf l i)))))
(assert (forall ((e Int)) (! (=> (not (= e 0)) (= (elemOf (elList e) (elIdx e)) e)) :pattern ((elList e)))))
(assert (forall ((e Int)) (! (=> (not (= e 0)) (= (elemOf (elList e) (elIdx e)) e)) :pattern ((elIdx e)))))
`
