package main

import "strings"

// inferPatterns picks e-matching triggers for a quantifier over bound variables vars with body `body`:
// the array reads whose index is a bound variable, or an offset plus a bound variable. Returns nil when
// no such term covers all bound variables (the solver then chooses its own triggers).
func inferPatterns(body string, vars []string) []string {
	var cands []string
	seen := map[string]bool{}
	var walk func(t string)
	walk = func(t string) {
		if !strings.HasPrefix(t, "(") {
			return
		}
		inner := t[1 : len(t)-1]
		parts := splitSexp(inner)
		if len(parts) == 0 {
			return
		}
		if parts[0] == "forall" || parts[0] == "exists" {
			// do not look inside nested quantifiers for outer triggers on the nested variables; still look for outer vars
			if len(parts) >= 3 {
				walk(parts[2])
			}
			return
		}
		if parts[0] == "select" && len(parts) == 3 {
			idx := parts[2]
			for _, v := range vars {
				if idx == v || isOffsetPlus(idx, v) {
					if !mentionsAny(parts[1], vars) || true {
						if !seen[t] && !strings.Contains(t, "(ite ") && !strings.Contains(t, "b2i") {
							seen[t] = true
							cands = append(cands, t)
						}
					}
				}
			}
		}
		if (parts[0] == "itoa" || parts[0] == "elemOf") && len(parts) >= 2 {
			for _, v := range vars {
				if parts[len(parts)-1] == v && !seen[t] {
					seen[t] = true
					cands = append(cands, t)
				}
			}
		}
		for _, p := range parts[1:] {
			walk(p)
		}
	}
	walk(body)
	if len(cands) == 0 {
		return nil
	}
	// keep the smallest candidates that mention each variable; drop candidates that contain another candidate
	var out []string
	for _, c := range cands {
		nested := false
		for _, d := range cands {
			if d != c && strings.Contains(c, d) {
				nested = true
			}
		}
		if !nested {
			out = append(out, c)
		}
	}
	// every variable must be covered by each pattern (single-variable quantifiers: trivially)
	var final []string
	for _, c := range out {
		ok := true
		for _, v := range vars {
			if !containsToken(c, v) {
				ok = false
			}
		}
		if ok {
			final = append(final, c)
		}
	}
	return final
}

func isOffsetPlus(idx, v string) bool {
	if !strings.HasPrefix(idx, "(at ") {
		return false
	}
	parts := splitSexp(idx[4 : len(idx)-1])
	if len(parts) != 2 {
		return false
	}
	return (parts[1] == v && !containsToken(parts[0], v)) || (parts[0] == v && !containsToken(parts[1], v))
}

func mentionsAny(t string, vars []string) bool {
	for _, v := range vars {
		if containsToken(t, v) {
			return true
		}
	}
	return false
}

func containsToken(t, v string) bool {
	i := 0
	for {
		j := strings.Index(t[i:], v)
		if j < 0 {
			return false
		}
		k := i + j + len(v)
		before := i+j == 0 || t[i+j-1] == ' ' || t[i+j-1] == '('
		after := k == len(t) || t[k] == ' ' || t[k] == ')'
		if before && after {
			return true
		}
		i = k
	}
}
