package main

// Loop cut points: invariants on entry, havoc, assume, invariants on the back edge.

import (
	"fmt"
	"go/ast"
	"go/token"
	"go/types"
	"os"
	"sort"
	"strings"

	"golang.org/x/tools/go/ssa"
)

// effects of a region of code on the heap, computed by a syntactic scan.
type effects struct {
	strong    map[string]bool // heap variables that may be written at existing objects
	all       bool            // an unknown callee: anything may be written
	allNonDoc bool            // callees with inferred summaries: everything but the document heap may be written
	allocates bool
	cells     map[*ssa.Alloc]bool
	hardAll   bool        // all was set by something other than a contract with an unstated frame
	unknown   []*Contract // the called contracts with unstated frames (their keeps lists survive)
}

func (g *gen) staticHeapName(addr ssa.Value) (string, *ssa.Alloc) {
	switch a := addr.(type) {
	case *ssa.FieldAddr:
		// nested inside a tracked non-heap location?
		if name, al := g.staticHeapName(a.X); al != nil {
			return name, al
		} else if name != "" && !isPtrToStructValue(a.X) {
			return name, nil
		}
		pt := deref(a.X.Type())
		return heapField(pt, a.Field), nil
	case *ssa.IndexAddr:
		switch u := a.X.Type().Underlying().(type) {
		case *types.Slice:
			return elemHeap(u.Elem()), nil
		case *types.Pointer:
			if name, al := g.staticHeapName(a.X); al != nil {
				return name, al
			}
			return elemHeap(u.Elem().Underlying().(*types.Array).Elem()), nil
		}
	case *ssa.Alloc:
		if !a.Heap {
			return "", a
		}
		et := deref(a.Type())
		switch et.Underlying().(type) {
		case *types.Struct, *types.Array:
			return "", nil
		}
		return cellHeap(et), nil
	case *ssa.Global:
		return "G." + sanitize(a.Pkg.Pkg.Name()+"."+a.Name()), nil
	case *ssa.FreeVar:
		return cellHeap(deref(a.Type())), nil
	}
	et := deref(addr.Type())
	if _, ok := et.Underlying().(*types.Struct); ok {
		return "", nil
	}
	return cellHeap(et), nil
}

// isPtrToStructValue: the operand is a real pointer-to-struct value (not an address derived from a location).
func isPtrToStructValue(v ssa.Value) bool {
	switch v.(type) {
	case *ssa.FieldAddr, *ssa.IndexAddr, *ssa.Global:
		return false
	case *ssa.Alloc:
		return v.(*ssa.Alloc).Heap
	}
	return true
}

func (g *gen) scanEffects(blocks map[*ssa.BasicBlock]bool) *effects {
	ef := &effects{strong: map[string]bool{}, cells: map[*ssa.Alloc]bool{}}
	for b := range blocks {
		for _, in := range b.Instrs {
			switch x := in.(type) {
			case *ssa.MapUpdate:
				if mt, ok := x.Map.Type().Underlying().(*types.Map); ok && g.mapModelled(mt) {
					vn, pn := mapHeapNames(mt)
					ef.strong[vn], ef.strong[pn] = true, true
				}
			case *ssa.Store:
				if root := addrRoot(x.Addr); root != nil {
					if al, ok := root.(*ssa.Alloc); ok && al.Heap && blocks[al.Block()] {
						// a store into an object allocated inside the region: only fresh memory changes
						ef.allocates = true
						continue
					}
				}
				if _, ok := x.Addr.(*ssa.FieldAddr); ok || true {
					name, al := g.staticHeapName(x.Addr)
					if al != nil {
						ef.cells[al] = true
					} else if name != "" {
						ef.strong[name] = true
					} else {
						// whole-struct store through a pointer: all its fields
						et := deref(x.Addr.Type())
						if su, ok := et.Underlying().(*types.Struct); ok {
							for i := 0; i < su.NumFields(); i++ {
								ef.strong[heapField(et, i)] = true
							}
						}
					}
				}
			case *ssa.Alloc:
				if x.Heap {
					ef.allocates = true
				} else {
					ef.cells[x] = true
				}
			case *ssa.MakeSlice, *ssa.MakeClosure, *ssa.MakeMap, *ssa.MakeChan:
				ef.allocates = true
			case *ssa.Convert:
				ef.allocates = true
			case *ssa.Slice:
				ef.allocates = true
			case *ssa.Next:
				if r, ok := x.Iter.(*ssa.Range); ok {
					ef.strong[g.iterVar(r)] = true
				}
			case *ssa.Range:
				ef.strong[g.iterVar(x)] = true
			case *ssa.Go, *ssa.Select, *ssa.Send:
				ef.all = true
				ef.hardAll = true
			case *ssa.Call:
				g.callEffects(&x.Call, ef)
			case *ssa.Defer:
				g.callEffects(&x.Call, ef)
			case *ssa.RunDefers:
				for _, d := range g.allDefers() {
					g.callEffects(&d.Call, ef)
				}
			}
		}
	}
	// escaped cells are havocked by any call
	return ef
}

func (g *gen) allDefers() []*ssa.Defer {
	var out []*ssa.Defer
	for _, b := range g.fn.Blocks {
		for _, in := range b.Instrs {
			if d, ok := in.(*ssa.Defer); ok {
				out = append(out, d)
			}
		}
	}
	return out
}

// ---- name resolution at a program point --------------------------------------------------------

// nameAt resolves a source-level variable name at the head of block b: header phis first, then
// the closest dominating definition recorded in the debug info.
func (g *gen) nameAt(b *ssa.BasicBlock, st *state, phiVal func(*ssa.Phi) string) func(string) (sval, bool) {
	return func(name string) (sval, bool) {
		for _, in := range b.Instrs {
			p, ok := in.(*ssa.Phi)
			if !ok {
				break
			}
			if p.Comment == name {
				return g.goVal(phiVal(p), p.Type()), true
			}
		}
		// debug refs (and, for a site inside block b, the refs of b before the site; a phi named like the
		// variable in a dominating loop header is a definition at the start of that block)
		var best *ssa.DebugRef
		var bestPhi *ssa.Phi
		var bestBlk *ssa.BasicBlock
		for _, blk := range g.fn.Blocks {
			if blk != b && !blk.Dominates(b) {
				continue
			}
			if blk == b && g.siteInstr == nil {
				continue
			}
			for _, in := range blk.Instrs {
				if blk == b && in == g.siteInstr {
					break
				}
				if p, ok := in.(*ssa.Phi); ok {
					if blk != b && p.Comment == name {
						if _, have := g.vals[p]; have && (bestBlk == nil || bestBlk.Dominates(blk)) {
							best, bestPhi, bestBlk = nil, p, blk
						}
					}
					continue
				}
				d, ok := in.(*ssa.DebugRef)
				if !ok {
					continue
				}
				obj := d.Object()
				if obj == nil || obj.Name() != name {
					continue
				}
				if _, isVar := obj.(*types.Var); !isVar {
					continue
				}
				if obj.Pkg() != nil && obj.Parent() == obj.Pkg().Scope() {
					continue // a package-level variable: its value is read from the current state, not from a use
				}
				if bestBlk == nil || bestBlk == blk || bestBlk.Dominates(blk) {
					best, bestPhi, bestBlk = d, nil, blk
				}
			}
		}
		if bestPhi != nil {
			return g.goVal(g.vals[bestPhi], bestPhi.Type()), true
		}
		if best != nil {
			if best.IsAddr {
				if l, ok := g.locs[best.X]; ok {
					return g.goVal(g.load(st, l), l.vtype), true
				}
				if a, ok := best.X.(*ssa.Alloc); ok && a.Heap {
					et := deref(a.Type())
					if p := namedPkg(et); p != "" && !g.P.isYq(p) {
						// a local of an external struct type (strings.Builder, bytes.Buffer): the name denotes the object
						return g.goVal(g.vals[a], a.Type()), true
					}
					if _, isS := et.Underlying().(*types.Struct); isS {
						return g.goVal(g.loadStruct(st, g.vals[a], et), et), true
					}
				}
			} else if t, ok := g.vals[best.X]; ok {
				return g.goVal(t, best.X.Type()), true
			} else if c, ok := best.X.(*ssa.Const); ok {
				return g.goVal(g.constTerm(c), c.Type()), true
			}
		}
		if p, ok := g.params[name]; ok {
			if _, isFV := p.(*ssa.FreeVar); !isFV {
				return g.goVal(g.vals[p], p.Type()), true
			}
		}
		return sval{}, false
	}
}

func (g *gen) pointEnv(b *ssa.BasicBlock, st *state, phiVal func(*ssa.Phi) string) *env {
	e := &env{g: g, st: st, names: map[string]sval{}, phiVal: phiVal}
	if g.con != nil {
		e.lets = g.con.Lets
	}
	at := g.nameAt(b, st, phiVal)
	e.lookup = func(name string) (sval, bool) {
		if _, isLet := e.lets[name]; !isLet && strings.HasSuffix(name, "0") && len(name) > 1 {
			// entry value of a parameter: name0
			if p, ok := g.params[name[:len(name)-1]]; ok {
				if _, isFV := p.(*ssa.FreeVar); !isFV {
					return g.goVal(g.vals[p], p.Type()), true
				}
			}
		}
		if v, ok := at(name); ok {
			return v, true
		}
		return g.lookupCommon(e, name)
	}
	e.old = g.entryEnv(g.entry)
	return e
}

// ---- loop entry / exit --------------------------------------------------------------------------

func (g *gen) enterLoop(li *loopInfo, b *ssa.BasicBlock, st *state, phis []*ssa.Phi) {
	// entry values of the phis
	entryVals := map[*ssa.Phi]string{}
	for _, p := range phis {
		var cands []string
		var conds []string
		for i, e := range p.Edges {
			pred := b.Preds[i]
			if g.back[[2]*ssa.BasicBlock{pred, b}] || g.exit[pred] == nil {
				continue
			}
			cands = append(cands, g.val(g.exit[pred], e))
			conds = append(conds, g.edge[[2]*ssa.BasicBlock{pred, b}])
		}
		if len(cands) == 1 {
			entryVals[p] = cands[0]
		} else {
			c := g.newConst("phi.entry."+sanitize(p.Comment), g.sorts.sortOf(p.Type()))
			for i := range cands {
				g.assert(sImp(conds[i], sEq(c, cands[i])))
			}
			entryVals[p] = c
		}
	}
	// find the range iterator driven by this loop, if any
	for blk := range li.body {
		for _, in := range blk.Instrs {
			if n, ok := in.(*ssa.Next); ok && blk == b {
				if r, ok := n.Iter.(*ssa.Range); ok {
					li.rangeIt = r
				}
			}
		}
	}
	g.buildAutoInvariants(li, b, phis, entryVals, st)
	li.entryTop = st.top
	iterName := fmt.Sprintf("ITER.%d", li.ordinal)
	g.heapSorts[iterName] = "Int"
	st.heap[iterName] = "0"
	// callsHere(NAME): the call counters as they are when this loop begins
	for n := range g.counted {
		c0 := fmt.Sprintf("ITER.c0.%d.%s", li.ordinal, n)
		g.heapSorts[c0] = "Int"
		if v, ok := st.heap["GHOST.calls."+n]; ok {
			st.heap[c0] = v
		} else {
			st.heap[c0] = "0"
		}
	}
	// 1. invariants hold on entry
	if g.opts.functional || g.opts.safety || g.opts.frames {
		entryEnv := g.pointEnv(b, st, func(p *ssa.Phi) string { return entryVals[p] })
		g.checkInvariants(li, entryEnv, "inv-entry", b)
	}
	// 2. havoc
	ef := g.scanEffects(li.body)
	if os.Getenv("YQV_DEBUG") != "" {
		var ss []string
		for k := range ef.strong {
			ss = append(ss, k)
		}
		sort.Strings(ss)
		fmt.Fprintf(os.Stderr, "%s loop%d: all=%v alloc=%v strong=%v\n", g.vc.Func, li.ordinal, ef.all, ef.allocates, ss)
	}
	_ = st.top
	if ef.all {
		g.newEpoch(st, func(name, r string) string {
			if !ef.hardAll && !ef.strong[name] && !ef.allNonDoc {
				kept := len(ef.unknown) > 0
				for _, uc := range ef.unknown {
					if !keepsHeap(uc, name) {
						kept = false
					}
				}
				if kept {
					return "true"
				}
			}
			return g.privateKeep(name, r)
		}, true)
	} else {
		strong := ef.strong
		alloc := ef.allocates
		nonDoc := ef.allNonDoc
		g.newEpoch(st, func(name, r string) string {
			if strong[name] {
				return "false"
			}
			if nonDoc && !g.isDocHeap(name) {
				return g.privateKeep(name, r)
			}
			if !alloc || r == "" {
				return "true"
			}
			return "weak"
		}, alloc)
	}
	// ghost variables changed in the body get fresh values (newEpoch never touches ghost state)
	var gnames []string
	for name := range ef.strong {
		if isGhostVar(name) {
			gnames = append(gnames, name)
		}
	}
	sort.Strings(gnames)
	for _, name := range gnames {
		if _, ok := st.heap[name]; ok || g.heapSorts[name] != "" {
			srt := g.heapSorts[name]
			if srt == "" {
				srt = "Int"
			}
			st.heap[name] = g.newConst(name+"@", srt)
		}
	}
	itc := g.newConst(iterName, "Int")
	g.assert(app(">=", itc, "0"))
	st.heap[iterName] = itc
	var cellList []*ssa.Alloc
	for a := range st.cells {
		if ef.cells[a] || (g.escaped[a] && (ef.all || ef.allNonDoc || ef.allocates)) {
			cellList = append(cellList, a)
		}
	}
	sort.Slice(cellList, func(i, j int) bool { return cellList[i].Pos() < cellList[j].Pos() })
	for _, a := range cellList {
		st.cells[a] = g.newConst("cell."+sanitize(a.Comment), g.sorts.sortOf(deref(a.Type())))
	}
	for _, p := range phis {
		li.phiTerms[p] = g.vals[p]
		g.assumeAllocated(st, g.vals[p], p.Type())
		// a phi whose back-edge values are all the phi itself is not changed by the loop
		unchanged := true
		for i, ev := range p.Edges {
			if g.back[[2]*ssa.BasicBlock{b.Preds[i], b}] && ev != ssa.Value(p) {
				unchanged = false
			}
		}
		if unchanged {
			g.assert(sEq(g.vals[p], entryVals[p]))
		}
	}
	// 3. assume invariants
	hdrEnv := g.pointEnv(b, st, func(p *ssa.Phi) string { return g.vals[p] })
	for _, f := range g.invariantFormulas(li, hdrEnv) {
		g.assume(f.term)
	}
	if li.con != nil && li.con.Decreases != nil {
		li.variant0 = g.define("variant", "Int", g.spec(hdrEnv, li.con.Decreases.Expr).t)
	}
	li.hstate = st.clone()
}

type invFormula struct {
	name  string
	term  string
	props []string
	pos   token.Pos
	auto  bool
}

func (g *gen) invariantFormulas(li *loopInfo, e *env) []invFormula {
	var out []invFormula
	for _, a := range li.autoInv {
		g.P.mu.Lock()
		dis := g.P.disabledAuto[g.vc.Func+"/"+a.name]
		g.P.mu.Unlock()
		if dis {
			continue
		}
		out = append(out, invFormula{name: a.name, term: a.mk(e), auto: true})
	}
	if li.con != nil && (g.opts.functional || true) {
		for i, c := range li.con.Invariants {
			name := c.Label
			if name == "" {
				name = fmt.Sprintf("%d:%s", i+1, c.Text)
			}
			out = append(out, invFormula{name: fmt.Sprintf("loop%d/%s", li.ordinal, name), term: g.specBool(e, c.Expr), props: c.Props})
		}
	}
	return out
}

func (g *gen) checkInvariants(li *loopInfo, e *env, kind string, b *ssa.BasicBlock) {
	for _, f := range g.invariantFormulas(li, e) {
		k := kind
		if f.auto {
			k = "auto-" + kind
		}
		g.oblige(k, f.name, loopPos(li.header), f.term, f.props)
	}
}

func (g *gen) closeLoop(li *loopInfo, u *ssa.BasicBlock, st *state) {
	h := li.header
	saveGuard := g.curGuard
	g.curGuard = g.edge[[2]*ssa.BasicBlock{u, h}]
	idx := -1
	for i, p := range h.Preds {
		if p == u {
			idx = i
		}
	}
	st = st.clone()
	iterName := fmt.Sprintf("ITER.%d", li.ordinal)
	st.heap[iterName] = app("+", g.heapVar(li.hstate, iterName, "Int"), "1")
	e := g.pointEnv(h, st, func(p *ssa.Phi) string { return g.val(st, p.Edges[idx]) })
	g.curBlock = u
	g.checkInvariants(li, e, "inv-preserved", h)
	if li.con != nil && li.con.Decreases != nil && g.opts.safety {
		v1 := g.spec(e, li.con.Decreases.Expr).t
		g.oblige("decreases", fmt.Sprintf("loop%d/%s", li.ordinal, li.con.Decreases.Text), loopPos(h), sAnd(app("<=", "0", li.variant0), app("<", v1, li.variant0)), nil)
	}
	g.curGuard = saveGuard
}

// ---- automatic invariant candidates --------------------------------------------------------------

func (g *gen) buildAutoInvariants(li *loopInfo, b *ssa.BasicBlock, phis []*ssa.Phi, entryVals map[*ssa.Phi]string, st *state) {
	li.autoInv = nil
	phiTerm := func(e *env, p *ssa.Phi) string {
		v, ok := e.lookup(p.Comment)
		if ok && p.Comment != "" {
			return v.t
		}
		return ""
	}
	_ = phiTerm
	for _, p := range phis {
		p := p
		cur := func(e *env) string { return g.phiIn(e, p) }
		switch {
		case isInt(p.Type()):
			// induction variable: phi = phi + c on every back edge
			step := int64(0)
			ok := true
			for i, ev := range p.Edges {
				if !g.back[[2]*ssa.BasicBlock{b.Preds[i], b}] {
					continue
				}
				bo, isBin := ev.(*ssa.BinOp)
				if !isBin || bo.X != ssa.Value(p) || (bo.Op != token.ADD && bo.Op != token.SUB) {
					ok = false
					break
				}
				c, isC := bo.Y.(*ssa.Const)
				if !isC {
					ok = false
					break
				}
				k := c.Int64()
				if bo.Op == token.SUB {
					k = -k
				}
				if step != 0 && (step > 0) != (k > 0) {
					ok = false
				}
				step = k
			}
			if ok && step != 0 {
				ev := entryVals[p]
				name := fmt.Sprintf("loop%d/auto:%s-monotone", li.ordinal, phiName(p))
				if step > 0 {
					li.autoInv = append(li.autoInv, autoInv{name, func(e *env) string { return app(">=", cur(e), ev) }})
				} else {
					li.autoInv = append(li.autoInv, autoInv{name, func(e *env) string { return app("<=", cur(e), ev) }})
				}
			}
			// range-over-slice idiom: header computes t = phi + 1; if t < len
			g.rangeIdiom(li, b, p, entryVals)
		case types.TypeString(p.Type(), nil) == "*container/list.Element":
			// el iterates over one list: el == nil || (elList(el) == l && 0 <= elIdx(el) < len(l))
			var l ssa.Value
			for i, ev := range p.Edges {
				if g.back[[2]*ssa.BasicBlock{b.Preds[i], b}] {
					continue
				}
				if c, ok := ev.(*ssa.Call); ok {
					if f := c.Call.StaticCallee(); f != nil && (f.Name() == "Front" || f.Name() == "Back") && len(c.Call.Args) == 1 {
						l = c.Call.Args[0]
					}
				}
			}
			if l != nil {
				lt, okl := g.vals[l]
				if okl {
					name := fmt.Sprintf("loop%d/auto:%s-in-list", li.ordinal, phiName(p))
					li.autoInv = append(li.autoInv, autoInv{name, func(e *env) string {
						c := cur(e)
						return sOr(sEq(c, "0"), sAnd(sEq(app("elList", c), lt), app("<=", "0", app("elIdx", c)), app("<", app("elIdx", c), g.listLen(e.st, lt))))
					}})
				}
			}
		}
		if _, isSl := p.Type().Underlying().(*types.Slice); isSl {
			name := fmt.Sprintf("loop%d/auto:%s-wf", li.ordinal, phiName(p))
			li.autoInv = append(li.autoInv, autoInv{name, func(e *env) string {
				c := cur(e)
				return sAnd(app(">=", app("s.len", c), "0"), app(">=", app("s.off", c), "0"), app(">=", app("s.base", c), "0"))
			}})
		}
	}
	if g.opts.errprop {
		name := fmt.Sprintf("loop%d/auto:no-pending-error", li.ordinal)
		li.autoInv = append(li.autoInv, autoInv{name, func(e *env) string {
			return sNot(g.heapVar(e.st, "GHOST.err", "Bool"))
		}})
	}
	// candidates about the function's node parameters and local contexts (used by the frame inference)
	if g.con != nil && g.con.flag("synth") {
		for _, prm := range g.fn.Params {
			prm := prm
			if isNodePtr(prm.Type()) {
				pt := g.vals[prm]
				name := fmt.Sprintf("loop%d/auto:%s-content-fresh", li.ordinal, prm.Name())
				ct := deref(prm.Type())
				fi := -1
				stt := ct.Underlying().(*types.Struct)
				for i := 0; i < stt.NumFields(); i++ {
					if stt.Field(i).Name() == "Content" {
						fi = i
					}
				}
				if fi >= 0 {
					li.autoInv = append(li.autoInv, autoInv{name, func(e *env) string {
						h, _ := g.fieldArr(e.st, ct, fi)
						b := app("s.base", app("select", h, pt))
						return sOr(sEq(pt, "0"), sEq(b, "0"), app(">", b, g.top0))
					}})
				}
			}
		}
		rc := ""
		for _, prm := range g.fn.Params {
			if strings.HasSuffix(types.TypeString(deref(prm.Type()), nil), "yqlib.Context") && prm.Name() != "_" {
				ev := g.spec(g.entryEnv(g.entry), mustParse(prm.Name()+".DontAutoCreate"))
				rc = ev.t
				break
			}
		}
		if rc != "" {
			for _, blk := range g.fn.Blocks {
				if !blk.Dominates(b) || blk == b {
					continue
				}
				for _, in := range blk.Instrs {
					a, ok := in.(*ssa.Alloc)
					if !ok || !a.Heap || !strings.HasSuffix(types.TypeString(deref(a.Type()), nil), "yqlib.Context") {
						continue
					}
					at, ok := g.vals[a]
					if !ok {
						continue
					}
					ct := deref(a.Type())
					stt := ct.Underlying().(*types.Struct)
					for i := 0; i < stt.NumFields(); i++ {
						if stt.Field(i).Name() == "DontAutoCreate" {
							fi := i
							name := fmt.Sprintf("loop%d/auto:%s-stays-read-only", li.ordinal, a.Comment)
							li.autoInv = append(li.autoInv, autoInv{name, func(e *env) string {
								h, _ := g.fieldArr(e.st, ct, fi)
								return sImp(rc, app("select", h, at))
							}})
						}
					}
				}
			}
		}
	}
	if li.rangeIt != nil {
		r := li.rangeIt
		name := fmt.Sprintf("loop%d/auto:range-pos", li.ordinal)
		it := g.iters[r]
		if it != nil && it.isStr {
			li.autoInv = append(li.autoInv, autoInv{name, func(e *env) string {
				pos := g.heapVar(e.st, g.iterVar(r), "Int")
				return sAnd(app("<=", "0", pos), app("<=", pos, app("runeCount", it.x)))
			}})
		}
	}
}

func phiName(p *ssa.Phi) string {
	if p.Comment != "" {
		return p.Comment
	}
	return p.Name()
}

// phiIn gives the value of header phi p in environment e (header value or back-edge value).
func (g *gen) phiIn(e *env, p *ssa.Phi) string {
	if e.phiVal != nil {
		return e.phiVal(p)
	}
	return g.vals[p]
}

func (g *gen) rangeIdiom(li *loopInfo, b *ssa.BasicBlock, p *ssa.Phi, entryVals map[*ssa.Phi]string) {
	// phi [entry: -1, back: t] where t = phi + 1 is computed in the header and compared with a length
	var inc *ssa.BinOp
	for _, in := range b.Instrs {
		if bo, ok := in.(*ssa.BinOp); ok && bo.Op == token.ADD && bo.X == ssa.Value(p) {
			if c, ok := bo.Y.(*ssa.Const); ok && c.Int64() == 1 {
				inc = bo
			}
		}
	}
	if inc == nil {
		return
	}
	for i, ev := range p.Edges {
		if g.back[[2]*ssa.BasicBlock{b.Preds[i], b}] && ev != ssa.Value(inc) {
			return
		}
	}
	// the bound
	var bound ssa.Value
	for _, in := range b.Instrs {
		if bo, ok := in.(*ssa.BinOp); ok && bo.Op == token.LSS && bo.X == ssa.Value(inc) {
			bound = bo.Y
		}
	}
	if bound == nil {
		return
	}
	bt, ok := g.vals[bound]
	if !ok {
		return
	}
	ev := entryVals[p]
	name := fmt.Sprintf("loop%d/auto:range-index", li.ordinal)
	li.autoInv = append(li.autoInv, autoInv{name, func(e *env) string {
		c := g.phiIn(e, p)
		return sAnd(app("<=", ev, c), sOr(app("<", c, bt), sEq(c, ev)))
	}})
}

var _ = ast.Inspect

// addrRoot follows FieldAddr / IndexAddr chains to the value the address is derived from.
func addrRoot(v ssa.Value) ssa.Value {
	for {
		switch a := v.(type) {
		case *ssa.FieldAddr:
			v = a.X
		case *ssa.IndexAddr:
			v = a.X
		default:
			return v
		}
	}
}

// keepsHeap: does a contract's keeps list cover heap variable name? ("nonnil:" clauses keep nothing.)
func keepsHeap(con *Contract, name string) bool {
	for _, k := range con.Keeps {
		switch {
		case strings.HasPrefix(k, "nonnil:"):
		case k == "list.*":
			if name == listLenHeap || name == listValHeap {
				return true
			}
		case strings.HasPrefix(k, "var."):
			if name == globalHeapOf(con, strings.TrimPrefix(k, "var.")) {
				return true
			}
		case strings.HasSuffix(k, ".*"):
			p := "H.yqlib." + strings.TrimSuffix(k, "*")
			if strings.HasPrefix(name, p) && !strings.Contains(name[len(p):], ".") {
				return true
			}
		default:
			if name == "H.yqlib."+k {
				return true
			}
		}
	}
	return false
}

// unknownFrame: a contract whose frame nobody checks (trusted, noframe) and that states none (ghost state
// aside) promises nothing about the heap.
func unknownFrame(con *Contract) bool {
	if con == nil || con.ModNothing || !(con.flag("trusted") || con.flag("noframe")) || con.flag("extern") || con.flag("pure") || con.ReadonlyIf != nil || con.flag("docframe-only") {
		return false
	}
	for _, m := range con.Modifies {
		if id, ok := m.Expr.(*ast.Ident); !ok || fileGhosts[id.Name] == "" {
			return false
		}
	}
	return true
}
