package main

import (
	"bytes"
	"encoding/json"
	"fmt"
	"go/ast"
	"go/printer"
	"go/token"
	"go/types"
	"io"
	"os"
	"path/filepath"
	"regexp"
	"sort"
	"strings"
	"sync"

	"go/constant"

	"golang.org/x/tools/go/packages"
	"golang.org/x/tools/go/ssa"
	"golang.org/x/tools/go/ssa/ssautil"
)

const yqModule = "github.com/mikefarah/yq/v4"

type specSig struct {
	args []string
	ret  string
}

type summary struct{ docPure bool }

type Program struct {
	overlays       map[string]*Contract // overlay contracts replaced by synthesised ones during frame inference
	repo           string
	verif          string
	fset           *token.FileSet
	pkgs           []*packages.Package
	prog           *ssa.Program
	spkgs          []*ssa.Package
	funcs          map[string]*ssa.Function // relative name (per package) -> function; yqlib names unqualified, others "pkg:name"
	contracts      map[string]*Contract
	contractList   []*Contract
	specFuncs      map[string]specSig
	specConsts     map[string]string
	specAcc        map[string]string
	specText       string
	specFileOf     map[string]string
	specNeeds      map[string][]string
	specWhen       map[string][]string
	specBodies     map[string]string
	specOrder      []string
	lemmas         []*Lemma
	summaries      map[*ssa.Function]summary
	disabledAuto   map[string]bool
	errHandled     map[string]map[string]string
	extraFrameHeap map[string]bool
	framelessHand  map[string]bool // functions in the read-only cone whose hand-written contract states no frame (C08 reports them)
	mu             sync.Mutex
	cmu            sync.RWMutex
	assumptions    map[string]bool
	loadErr        []string
}

func (P *Program) usedAssumption(s string) {
	P.mu.Lock()
	P.assumptions[s] = true
	P.mu.Unlock()
}

func (P *Program) isYq(path string) bool { return strings.HasPrefix(path, yqModule) }

func pkgShort(path string) string {
	switch path {
	case yqModule + "/pkg/yqlib":
		return ""
	case yqModule + "/cmd":
		return "cmd:"
	case yqModule:
		return "main:"
	}
	return path + ":"
}

// relName: the name used in contract files: yqlib functions unqualified, e.g. "(*CandidateNode).UpdateFrom".
func (P *Program) relName(fn *ssa.Function) string {
	var pkg *ssa.Package
	f := fn
	for f.Parent() != nil {
		f = f.Parent()
	}
	pkg = f.Pkg
	if pkg == nil {
		return fn.String()
	}
	return pkgShort(pkg.Pkg.Path()) + fn.RelString(pkg.Pkg)
}

func (P *Program) relType(t types.Type) string {
	return types.TypeString(t, func(p *types.Package) string {
		if P.isYq(p.Path()) {
			return ""
		}
		return p.Name()
	})
}

func (P *Program) contractFor(fn *ssa.Function) *Contract {
	if fn == nil {
		return nil
	}
	if c := P.getContract(P.relName(fn)); c != nil {
		return c
	}
	if fn.Pkg == nil || !P.isYq(fn.Pkg.Pkg.Path()) {
		return P.getContract(fn.String()) // extern contracts are keyed by the full name
	}
	return nil
}

func (P *Program) getContract(key string) *Contract {
	P.cmu.RLock()
	defer P.cmu.RUnlock()
	return P.contracts[key]
}

func (P *Program) setContract(key string, c *Contract) {
	P.cmu.Lock()
	P.contracts[key] = c
	P.cmu.Unlock()
}

func (P *Program) candidateNodePtr() types.Type {
	for _, p := range P.pkgs {
		if p.PkgPath == yqModule+"/pkg/yqlib" {
			return types.NewPointer(p.Types.Scope().Lookup("CandidateNode").Type())
		}
	}
	return nil
}

// listPtr: the type *container/list.List as the loaded program sees it.
func (P *Program) listPtr() types.Type {
	for _, p := range P.pkgs {
		if p.PkgPath == yqModule+"/pkg/yqlib" {
			for _, imp := range p.Types.Imports() {
				if imp.Path() == "container/list" {
					return types.NewPointer(imp.Scope().Lookup("List").Type())
				}
			}
		}
	}
	return nil
}

func (P *Program) specAccessor(name string) string {
	if s, ok := P.specAcc[name]; ok {
		return s
	}
	return "Int"
}

func loadProgram(repo, verif string) (*Program, error) {
	P := &Program{repo: repo, verif: verif, funcs: map[string]*ssa.Function{}, contracts: map[string]*Contract{}, specFuncs: map[string]specSig{},
		specConsts: map[string]string{}, specAcc: map[string]string{}, specFileOf: map[string]string{}, specNeeds: map[string][]string{}, specWhen: map[string][]string{}, specBodies: map[string]string{}, disabledAuto: map[string]bool{}, extraFrameHeap: map[string]bool{}, assumptions: map[string]bool{}}
	P.fset = token.NewFileSet()
	cfg := &packages.Config{Mode: packages.LoadSyntax, Dir: repo, Fset: P.fset, BuildFlags: []string{"-tags=verif"},
		Env: append(os.Environ(), "GOFLAGS=-mod=mod", "GOPROXY=off", "GOSUMDB=off", "GOTOOLCHAIN=local")}
	pkgs, err := packages.Load(cfg, "./pkg/yqlib", "./cmd", ".")
	if err != nil {
		return nil, err
	}
	for _, p := range pkgs {
		for _, e := range p.Errors {
			P.loadErr = append(P.loadErr, e.Error())
		}
	}
	if len(P.loadErr) > 0 {
		return P, fmt.Errorf("package load errors: %s", strings.Join(P.loadErr, "; "))
	}
	P.pkgs = pkgs
	P.prog, P.spkgs = ssautil.Packages(pkgs, ssa.GlobalDebug|ssa.BareInits)
	P.prog.Build()
	for _, sp := range P.spkgs {
		if sp == nil {
			continue
		}
		for fn := range ssautil.AllFunctions(P.prog) {
			_ = fn
			break
		}
	}
	for fn := range ssautil.AllFunctions(P.prog) {
		f := fn
		for f.Parent() != nil {
			f = f.Parent()
		}
		if f.Pkg == nil || !P.isYq(f.Pkg.Pkg.Path()) || len(fn.Blocks) == 0 {
			continue
		}
		if fn.Synthetic != "" && !strings.Contains(fn.Synthetic, "init") {
			continue
		}
		P.funcs[P.relName(fn)] = fn
	}
	// contracts
	for _, p := range pkgs {
		for _, f := range p.GoFiles {
			if strings.HasPrefix(filepath.Base(f), "zz_verif_") {
				cs, err := parseContractFile(f, p.PkgPath)
				if err != nil {
					return P, err
				}
				for _, c := range cs {
					key := c.FuncName
					if strings.HasPrefix(key, "extern ") {
						key = strings.TrimSpace(strings.TrimPrefix(key, "extern "))
						c.Flags["trusted"] = true
						c.Flags["extern"] = true
					} else if !strings.HasPrefix(key, "invoke ") && !strings.HasPrefix(key, "functype ") {
						key = pkgShort(p.PkgPath) + c.FuncName
					}
					if P.getContract(key) != nil {
						return P, fmt.Errorf("%s:%d: duplicate contract for %s", c.File, c.Line, key)
					}
					P.contracts[key] = c
					P.contractList = append(P.contractList, c)
				}
			}
		}
	}
	for n, sg := range map[string]specSig{"b2i": {[]string{"Bool"}, "Int"}, "sign": {[]string{"Int"}, "Int"}, "itoa": {[]string{"Int"}, "String"},
		"strcmp": {[]string{"String", "String"}, "Int"}, "tdiv": {[]string{"Int", "Int"}, "Int"}, "tmod": {[]string{"Int", "Int"}, "Int"},
		"wrapS64": {[]string{"Int"}, "Int"}, "rnd": {[]string{"Int"}, "Real"}, "elemOf": {[]string{"Int", "Int"}, "Int"}, "elList": {[]string{"Int"}, "Int"}, "elIdx": {[]string{"Int"}, "Int"}} {
		P.specFuncs[n] = sg
	}
	P.errHandled = map[string]map[string]string{}
	if data, err := os.ReadFile(filepath.Join(verif, "tables", "errprop_handled.json")); err == nil {
		var t struct {
			Handled   map[string]map[string]string `json:"handled"`
			NeverFail []string                     `json:"never_fail"`
		}
		if json.Unmarshal(data, &t) == nil {
			P.errHandled = t.Handled
			nf := map[string]string{}
			for _, n := range t.NeverFail {
				nf[n] = "documented to always return a nil error"
			}
			P.errHandled["*"] = nf
		}
	}
	if err := P.loadSpecs(filepath.Join(verif, "spec")); err != nil {
		return P, err
	}
	return P, nil
}

var sigRe = regexp.MustCompile(`^;;\s*sig\s+([A-Za-z0-9_.]+)\s*\(([^)]*)\)\s*(.+)$`)
var accRe = regexp.MustCompile(`^;;\s*acc\s+([A-Za-z0-9_.]+)\s+(.+)$`)
var constRe = regexp.MustCompile(`^;;\s*const\s+([A-Za-z0-9_.]+)\s+(.+)$`)

// loadSpecs reads /verif/spec/*.smt2: SMT-LIB text with ";; sig name(ArgSort, ...) RetSort" headers and
// lemma blocks (see lemma.go).
func (P *Program) loadSpecs(dir string) error {
	files, _ := filepath.Glob(filepath.Join(dir, "*.smt2"))
	sort.Strings(files)
	var text strings.Builder
	for _, f := range files {
		data, err := os.ReadFile(f)
		if err != nil {
			return err
		}
		body, lemmas, err := parseSpecFile(f, string(data))
		if err != nil {
			return err
		}
		P.lemmas = append(P.lemmas, lemmas...)
		for _, line := range strings.Split(body, "\n") {
			t := strings.TrimSpace(line)
			if m := sigRe.FindStringSubmatch(t); m != nil {
				var args []string
				for _, a := range splitSorts(m[2]) {
					args = append(args, a)
				}
				P.specFuncs[m[1]] = specSig{args: args, ret: strings.TrimSpace(m[3])}
				P.specFileOf[m[1]] = filepath.Base(f)
			} else if m := accRe.FindStringSubmatch(t); m != nil {
				P.specAcc[m[1]] = strings.TrimSpace(m[2])
			} else if m := constRe.FindStringSubmatch(t); m != nil {
				P.specConsts[m[1]] = strings.TrimSpace(m[2])
				P.specFileOf[m[1]] = filepath.Base(f)
			} else if strings.HasPrefix(t, ";; when ") {
				for _, w := range strings.Fields(t[len(";; when "):]) {
					P.specWhen[w] = append(P.specWhen[w], filepath.Base(f))
				}
			} else if strings.HasPrefix(t, ";; needs ") {
				P.specNeeds[filepath.Base(f)] = append(P.specNeeds[filepath.Base(f)], strings.Fields(t[len(";; needs "):])...)
			}
		}
		P.specBodies[filepath.Base(f)] = body
		P.specOrder = append(P.specOrder, filepath.Base(f))
		text.WriteString("; ---- " + filepath.Base(f) + "\n")
		text.WriteString(body)
		text.WriteString("\n")
	}
	P.specText = text.String()
	return nil
}

func splitSorts(s string) []string {
	var out []string
	d := 0
	cur := ""
	for _, c := range s {
		switch c {
		case '(':
			d++
		case ')':
			d--
		case ',':
			if d == 0 {
				if t := strings.TrimSpace(cur); t != "" {
					out = append(out, t)
				}
				cur = ""
				continue
			}
		}
		cur += string(c)
	}
	if t := strings.TrimSpace(cur); t != "" {
		out = append(out, t)
	}
	return out
}

func printerFprint(w io.Writer, n ast.Node) error {
	return printer.Fprint(w, token.NewFileSet(), n)
}

func constantStringVal(c *ssa.Const) string { return constant.StringVal(c.Value) }

// vcText assembles the common part of every query of a VC.
func (P *Program) vcText(vc *VC, nAsserts int, tail string) string {
	return P.vcTextOpt(vc, nAsserts, tail, false)
}

// vcTextOpt: lite drops every quantified assumption (sound: fewer assumptions), for a fast first attempt.
func (P *Program) vcTextOpt(vc *VC, nAsserts int, tail string, lite bool) string {
	var b bytes.Buffer
	b.WriteString(preludeText)
	b.WriteString(vc.Sorts.declText())
	var body bytes.Buffer
	for _, d := range vc.Decls {
		body.WriteString(d)
		body.WriteByte('\n')
	}
	if nAsserts < 0 || nAsserts > len(vc.Asserts) {
		nAsserts = len(vc.Asserts)
	}
	for _, a := range vc.Asserts[:nAsserts] {
		if lite && (strings.Contains(a, "(forall ") || strings.Contains(a, "(exists ")) {
			continue
		}
		body.WriteString("(assert ")
		body.WriteString(a)
		body.WriteString(")\n")
	}
	bs := body.String() + tail
	// optional axiom groups, included only when their symbols occur
	if !lite && (strings.Contains(bs, "elemOf") || strings.Contains(bs, "elList") || strings.Contains(bs, "elIdx")) {
		b.WriteString(listAxioms)
	}
	if lite {
		b.WriteString(liteSpecDecls(P.specTextFor(bs)))
		b.WriteString(bs)
		return b.String()
	}
	for _, ax := range vc.Sorts.boxAxioms {
		// "(assert (forall ((x S)) (! (= (unbox.Y (box.Y x)) x) ..." — needed only when unbox.Y is used
		i := strings.Index(ax, "(unbox.")
		j := strings.Index(ax[i:], " ")
		if strings.Contains(bs, ax[i:i+j]+" ") {
			b.WriteString(ax)
		}
	}
	b.WriteString(P.specTextFor(bs))
	b.WriteString(bs)
	return b.String()
}

// specTextFor returns the spec-library files whose functions are mentioned in the VC body
// (plus the files those files say they need).
func (P *Program) specTextFor(body string) string {
	need := map[string]bool{}
	for name, f := range P.specFileOf {
		if strings.Contains(body, "("+name+" ") || strings.Contains(body, " "+name+" ") || strings.Contains(body, " "+name+")") {
			need[f] = true
		}
	}
	for name, fs := range P.specWhen {
		if strings.Contains(body, "("+name+" ") {
			for _, f := range fs {
				need[f] = true
			}
		}
	}
	changed := true
	for changed {
		changed = false
		for f := range need {
			for _, d := range P.specNeeds[f] {
				if !need[d] {
					need[d] = true
					changed = true
				}
			}
		}
	}
	var out strings.Builder
	for _, f := range P.specOrder {
		if need[f] {
			out.WriteString("; ---- spec " + f + "\n")
			out.WriteString(P.specBodies[f])
			out.WriteString("\n")
		}
	}
	return out.String()
}

// liteSpecDecls keeps the declarations and definitions of the spec text but drops its quantified axioms.
func liteSpecDecls(spec string) string {
	var out strings.Builder
	for _, form := range topLevelForms(spec) {
		if strings.HasPrefix(form, "(assert") && (strings.Contains(form, "(forall ") || strings.Contains(form, "(exists ")) {
			continue
		}
		out.WriteString(form)
		out.WriteByte('\n')
	}
	return out.String()
}

func topLevelForms(s string) []string {
	var out []string
	d := 0
	start := -1
	inStr := false
	inComment := false
	for i := 0; i < len(s); i++ {
		c := s[i]
		if inComment {
			if c == '\n' {
				inComment = false
			}
			continue
		}
		if inStr {
			if c == '"' {
				inStr = false
			}
			continue
		}
		switch c {
		case ';':
			if d == 0 {
				inComment = true
			} else {
				inComment = true
			}
		case '"':
			inStr = true
		case '(':
			if d == 0 {
				start = i
			}
			d++
		case ')':
			d--
			if d == 0 && start >= 0 {
				out = append(out, s[start:i+1])
				start = -1
			}
		}
	}
	return out
}
