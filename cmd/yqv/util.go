package main

import (
	"encoding/json"
	"os"
)

func tempDir() (string, func()) {
	base := os.Getenv("YQV_TMP")
	if base == "" {
		base = os.TempDir()
	}
	d, err := os.MkdirTemp(base, "yqv")
	if err != nil {
		panic(err)
	}
	return d, func() { os.RemoveAll(d) }
}

func jsonUnmarshal(data []byte, v interface{}) error { return json.Unmarshal(data, v) }
