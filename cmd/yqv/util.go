package main

import "os"

func tempDir() (string, func()) {
	base := os.Getenv("YQV_TMP")
	if base == "" {
		base = os.TempDir()
	}
	d, err := os.MkdirTemp(base, "yqv")
	if err != nil {
		panic(err)
	}
	return d, func() { os.RemoveAll(d) }
}
