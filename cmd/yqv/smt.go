package main

// S-expression helpers for SMT-LIB 2.6 text. Terms are plain strings.

import (
	"fmt"
	"math/big"
	"strings"
)

func app(op string, args ...string) string {
	if len(args) == 0 {
		return op
	}
	if len(args) == 1 {
		switch op {
		case "s.base", "s.off", "s.len":
			if strings.HasPrefix(args[0], "(mk-slice ") {
				if parts := splitSexp(args[0][len("(mk-slice ") : len(args[0])-1]); len(parts) == 3 {
					return parts[map[string]int{"s.base": 0, "s.off": 1, "s.len": 2}[op]]
				}
			}
		case "i.typ", "i.val":
			if strings.HasPrefix(args[0], "(mk-iface ") {
				if parts := splitSexp(args[0][len("(mk-iface ") : len(args[0])-1]); len(parts) == 2 {
					return parts[map[string]int{"i.typ": 0, "i.val": 1}[op]]
				}
			}
		}
	}
	return "(" + op + " " + strings.Join(args, " ") + ")"
}

func sAnd(args ...string) string {
	var a []string
	for _, x := range args {
		if x == "true" || x == "" {
			continue
		}
		if x == "false" {
			return "false"
		}
		a = append(a, x)
	}
	switch len(a) {
	case 0:
		return "true"
	case 1:
		return a[0]
	}
	return app("and", a...)
}

func sOr(args ...string) string {
	var a []string
	for _, x := range args {
		if x == "false" || x == "" {
			continue
		}
		if x == "true" {
			return "true"
		}
		a = append(a, x)
	}
	switch len(a) {
	case 0:
		return "false"
	case 1:
		return a[0]
	}
	return app("or", a...)
}

func sNot(x string) string {
	switch x {
	case "true":
		return "false"
	case "false":
		return "true"
	}
	if strings.HasPrefix(x, "(not ") && balanced(x[5:len(x)-1]) {
		return x[5 : len(x)-1]
	}
	return app("not", x)
}

func balanced(s string) bool {
	d := 0
	inStr := false
	for i := 0; i < len(s); i++ {
		c := s[i]
		if inStr {
			if c == '"' {
				inStr = false
			}
			continue
		}
		switch c {
		case '"':
			inStr = true
		case '(':
			d++
		case ')':
			d--
			if d < 0 {
				return false
			}
		case ' ':
			if d == 0 {
				return false
			}
		}
	}
	return d == 0
}

func sImp(a, b string) string {
	if a == "true" {
		return b
	}
	if a == "false" || b == "true" {
		return "true"
	}
	return app("=>", a, b)
}

func sIte(c, a, b string) string {
	if c == "true" {
		return a
	}
	if c == "false" {
		return b
	}
	if a == b {
		return a
	}
	return app("ite", c, a, b)
}

func sEq(a, b string) string {
	if a == b {
		return "true"
	}
	return app("=", a, b)
}

func intLit(v int64) string {
	if v < 0 {
		if v == -9223372036854775808 {
			return "(- 9223372036854775808)"
		}
		return fmt.Sprintf("(- %d)", -v)
	}
	return fmt.Sprintf("%d", v)
}

func bigLit(v *big.Int) string {
	if v.Sign() < 0 {
		return "(- " + new(big.Int).Neg(v).String() + ")"
	}
	return v.String()
}

// strLit renders a Go string (a byte sequence) as an SMT-LIB string literal, one SMT
// character per byte.
func strLit(s string) string {
	var b strings.Builder
	b.WriteByte('"')
	for i := 0; i < len(s); i++ {
		c := s[i]
		switch {
		case c == '"':
			b.WriteString(`""`)
		case c == '\\':
			b.WriteString(`\u{5c}`)
		case c >= 0x20 && c < 0x7f:
			b.WriteByte(c)
		default:
			fmt.Fprintf(&b, `\u{%x}`, c)
		}
	}
	b.WriteByte('"')
	return b.String()
}

func boolLit(v bool) string {
	if v {
		return "true"
	}
	return "false"
}

// sanitize makes a string usable inside an SMT symbol.
func sanitize(s string) string {
	var b strings.Builder
	for _, r := range s {
		switch {
		case r >= 'a' && r <= 'z', r >= 'A' && r <= 'Z', r >= '0' && r <= '9', r == '_', r == '.', r == '$':
			b.WriteRune(r)
		case r == '*':
			b.WriteString("ptr.")
		case r == '[':
			b.WriteString("sl.")
		case r == ']', r == '(', r == ')', r == ' ':
		case r == '/':
			b.WriteString(".")
		default:
			b.WriteString("_")
		}
	}
	return b.String()
}
