package main

// Table checks: facts about package-level composite literals (the operator table), read from the AST
// of /repo's current tree. Labelled "table" in evidence; they are not function proofs.

import (
	"encoding/json"
	"fmt"
	"go/ast"
	"go/token"
	"os"
	"path/filepath"
	"sort"
	"strconv"
	"strings"
	"time"

	"golang.org/x/tools/go/ssa"
)

type opTypeLit struct {
	Var        string
	Type       string
	NumArgs    int
	Precedence int
	Handler    string
	Pos        token.Position
}

func (P *Program) opTypeTable() ([]opTypeLit, error) {
	var out []opTypeLit
	for _, pkg := range P.pkgs {
		if pkg.PkgPath != yqModule+"/pkg/yqlib" {
			continue
		}
		for _, f := range pkg.Syntax {
			for _, d := range f.Decls {
				gd, ok := d.(*ast.GenDecl)
				if !ok || gd.Tok != token.VAR {
					continue
				}
				for _, sp := range gd.Specs {
					vs := sp.(*ast.ValueSpec)
					for i, v := range vs.Values {
						ue, ok := v.(*ast.UnaryExpr)
						if !ok || ue.Op != token.AND {
							continue
						}
						cl, ok := ue.X.(*ast.CompositeLit)
						if !ok {
							continue
						}
						if id, ok := cl.Type.(*ast.Ident); !ok || id.Name != "operationType" {
							continue
						}
						lit := opTypeLit{Var: vs.Names[i].Name, Pos: P.fset.Position(cl.Pos()), NumArgs: 0, Precedence: -1}
						for _, el := range cl.Elts {
							kv, ok := el.(*ast.KeyValueExpr)
							if !ok {
								return nil, fmt.Errorf("%s: positional operationType literal", lit.Pos)
							}
							key := kv.Key.(*ast.Ident).Name
							switch key {
							case "Type":
								if bl, ok := kv.Value.(*ast.BasicLit); ok {
									lit.Type, _ = strconv.Unquote(bl.Value)
								}
							case "NumArgs", "Precedence":
								bl, ok := kv.Value.(*ast.BasicLit)
								if !ok {
									return nil, fmt.Errorf("%s: %s is not a literal", lit.Pos, key)
								}
								n, _ := strconv.Atoi(bl.Value)
								if key == "NumArgs" {
									lit.NumArgs = n
								} else {
									lit.Precedence = n
								}
							case "Handler":
								if id, ok := kv.Value.(*ast.Ident); ok {
									lit.Handler = id.Name
								} else {
									lit.Handler = "<expr>"
								}
							}
						}
						out = append(out, lit)
					}
				}
			}
		}
	}
	sort.Slice(out, func(i, j int) bool { return out[i].Var < out[j].Var })
	return out, nil
}

func tableChecksC09(P *Program, tier string) []extraResult {
	t0 := time.Now()
	var res []extraResult
	tab, err := P.opTypeTable()
	if err != nil {
		return []extraResult{{Name: "table/operationTypes-readable", Kind: "table", OK: false, Detail: err.Error()}}
	}
	// T1: arity and handler
	var bad []string
	for _, l := range tab {
		if l.NumArgs < 0 || l.NumArgs > 2 {
			bad = append(bad, fmt.Sprintf("%s: NumArgs %d", l.Var, l.NumArgs))
		}
		if l.Handler == "" || l.Handler == "nil" {
			bad = append(bad, fmt.Sprintf("%s: no Handler", l.Var))
		}
		if l.Precedence < 0 {
			bad = append(bad, fmt.Sprintf("%s: no Precedence", l.Var))
		}
	}
	res = append(res, extraResult{Name: "table/operationTypes-arity-0-1-2-and-handler", Kind: "table", OK: len(bad) == 0 && len(tab) > 50, Count: len(tab), Detail: fmt.Sprintf("%d operationType literals read; violations: %v", len(tab), bad)})
	// T2: the op-type globals are assigned only by their initialiser (so "xOpType != nil" holds at every call)
	names := map[string]bool{}
	for _, l := range tab {
		names[l.Var] = true
	}
	var writes []string
	for _, fn := range P.funcs {
		if fn.Name() == "init" && fn.Parent() == nil {
			continue
		}
		for _, b := range fn.Blocks {
			for _, in := range b.Instrs {
				if st, ok := in.(*ssa.Store); ok {
					if gl, ok := st.Addr.(*ssa.Global); ok && names[gl.Name()] {
						writes = append(writes, fmt.Sprintf("%s assigns %s", P.relName(fn), gl.Name()))
					}
				}
			}
		}
	}
	res = append(res, extraResult{Name: "table/operationType-globals-never-reassigned", Kind: "table", OK: len(writes) == 0, Count: len(names), Detail: fmt.Sprintf("assignments outside the initialisers: %v (this is what makes the precondition opTypesSet() hold everywhere)", writes)})
	// T3: precedence classes
	data, err := os.ReadFile(filepath.Join(P.verif, "tables", "precedence_classes.json"))
	if err != nil {
		return append(res, extraResult{Name: "table/precedence-classes", Kind: "table", OK: false, Detail: err.Error()})
	}
	var pc struct {
		Classes   [][]string `json:"classes"`
		SameLevel []int      `json:"same_level"`
	}
	if err := json.Unmarshal(data, &pc); err != nil {
		return append(res, extraResult{Name: "table/precedence-classes", Kind: "table", OK: false, Detail: err.Error()})
	}
	prec := map[string]int{}
	for _, l := range tab {
		prec[l.Var] = l.Precedence
	}
	var viol []string
	pairs := 0
	for i := 0; i+1 < len(pc.Classes); i++ {
		for _, a := range pc.Classes[i] {
			if strings.HasSuffix(a, "_EXCLUDED") {
				continue
			}
			pa, ok := prec[a]
			if !ok {
				viol = append(viol, "unknown operator "+a)
				continue
			}
			for _, b := range pc.Classes[i+1] {
				if strings.HasSuffix(b, "_EXCLUDED") {
					continue
				}
				pb, ok := prec[b]
				if !ok {
					continue
				}
				pairs++
				if !(pa < pb) {
					viol = append(viol, fmt.Sprintf("%s (%d) must bind looser than %s (%d)", a, pa, b, pb))
				}
			}
		}
	}
	for _, a := range pc.Classes[len(pc.Classes)-1] {
		if _, ok := prec[a]; !ok && !strings.HasSuffix(a, "_EXCLUDED") {
			viol = append(viol, "unknown operator "+a)
		}
	}
	// rows of the table: the members of a same-level class carry one precedence number
	var viol2 []string
	rows := 0
	for _, ci := range pc.SameLevel {
		if ci < 0 || ci >= len(pc.Classes) {
			viol2 = append(viol2, fmt.Sprintf("same_level names class %d, which does not exist", ci))
			continue
		}
		first, firstName := -1, ""
		for _, a := range pc.Classes[ci] {
			if strings.HasSuffix(a, "_EXCLUDED") {
				continue
			}
			pa, ok := prec[a]
			if !ok {
				continue // reported above as unknown
			}
			if firstName == "" {
				first, firstName = pa, a
				continue
			}
			rows++
			if pa != first {
				viol2 = append(viol2, fmt.Sprintf("%s (%d) and %s (%d) are one row of the precedence table", firstName, first, a, pa))
			}
		}
	}
	res = append(res, extraResult{Name: "table/precedence-rows", Kind: "table", OK: len(viol2) == 0 && rows > 0, Count: rows, Detail: fmt.Sprintf("%d operators compared with the first of their row; violations: %v", rows, viol2)})
	res = append(res, extraResult{Name: "table/precedence-class-order", Kind: "table", OK: len(viol) == 0 && pairs > 0, Count: pairs, Detail: fmt.Sprintf("%d class-adjacent operator pairs compared; violations: %v", pairs, viol)})
	for i := range res {
		res[i].Ms = time.Since(t0).Milliseconds()
	}
	return res
}

func init() {
	extraChecks["C09"] = append(extraChecks["C09"], tableChecksC09)
}
