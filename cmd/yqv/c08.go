package main

// C08: every handler of the read-only operator set must come out of the frame inference as PURE or
// RO-IF(context.DontAutoCreate); hand-written frame contracts are verified by the ordinary path.

import (
	"encoding/json"
	"fmt"
	"go/ast"
	"golang.org/x/tools/go/ssa"
	"os"
	"path/filepath"
	"sort"
	"strings"
	"time"
)

func loadFrameOverrides(verif string) map[string]frameOverride {
	out := map[string]frameOverride{}
	data, err := os.ReadFile(filepath.Join(verif, "tables", "frame_overrides.json"))
	if err != nil {
		return out
	}
	var f struct {
		Overrides map[string]frameOverride `json:"overrides"`
	}
	if json.Unmarshal(data, &f) == nil {
		for k, v := range f.Overrides {
			out[k] = v
		}
	}
	return out
}

var c08Inferred map[*ssa.Function]*inferred
var c08Ms int64

func prepareC08(P *Program, tier string) {
	t0 := time.Now()
	roots := P.readonlyHandlers()
	save := fastMode
	fastMode = true
	defer func() { fastMode = save }()
	to := 3000
	if tier == "thorough" {
		to = 10000
	}
	c08Inferred = P.inferFramesWith(roots, to, loadFrameOverrides(P.verif))
	c08Ms = time.Since(t0).Milliseconds()
}

func frameChecksC08(P *Program, tier string) []extraResult {
	t0 := time.Now()
	roots := P.readonlyHandlers()
	if len(roots) == 0 {
		return []extraResult{{Name: "readonly/handlers-found", Kind: "inferred-frame", OK: false, Detail: "no handler of the read-only operator set was found (tables/readonly_ops.json vs operation.go)"}}
	}
	ov := loadFrameOverrides(P.verif)
	U := c08Inferred
	var res []extraResult
	counts := map[string]int{}
	for _, inf := range U {
		counts[inf.class.String()]++
	}
	res = append(res, extraResult{Name: "inference/summary", Kind: "inferred-frame", OK: len(U) > 50, Count: len(U),
		Detail: fmt.Sprintf("%d functions reachable from %d read-only handlers; inferred classes %v (each summary is verified against the function body assuming the callees' summaries)", len(U), len(roots), counts)})
	// hand-written contracts in the cone that state no frame at all: their stores would be invisible here
	P.cmu.RLock()
	var frameless []string
	for n := range P.framelessHand {
		frameless = append(frameless, n)
	}
	P.cmu.RUnlock()
	sort.Strings(frameless)
	res = append(res, extraResult{Name: "inference/no-frameless-contract-in-the-cone", Kind: "inferred-frame", OK: len(frameless) == 0, Count: len(U),
		Detail: fmt.Sprintf("functions reachable from the read-only handlers whose hand-written contract is noframe without modifies / readonly-if / trusted / overlay (their writes would escape the read-only check; mark them overlay or state a frame): %v", frameless)})
	// handlers
	seen := map[string]bool{}
	for _, h := range roots {
		name := P.relName(h)
		if seen[name] {
			continue
		}
		seen[name] = true
		inf := U[h]
		if inf == nil {
			// has a hand-written contract: verified by the ordinary obligations of this property
			con := P.contractFor(h)
			// ghost state (the evaluation log) aside, the contract must state no writes
			realMods := 0
			if con != nil {
				for _, m := range con.Modifies {
					if id, isId := m.Expr.(*ast.Ident); !isId || fileGhosts[id.Name] == "" {
						realMods++
					}
				}
			}
			ok := con != nil && !con.flag("synth") && !con.flag("trusted") && realMods == 0
			res = append(res, extraResult{Name: "readonly/" + name, Kind: "inferred-frame", OK: ok, Detail: "hand-written frame contract (verified with the function's other obligations)"})
			continue
		}
		ok := inf.class == clsPure && len(inf.writable()) == 0 || inf.class == clsROIf && len(inf.writable()) == 0
		if ok && !inf.keepsMode && inf.ctxName != "" {
			ok = false
			inf.reason = "the returned context does not provably keep the DontAutoCreate flag of the incoming one (the dispatcher contract promises it)"
		}
		d := fmt.Sprintf("inferred: %s writes=%v keeps-mode=%v", inf.class, inf.writable(), inf.keepsMode)
		if !ok {
			d += "\nfirst failing obligation when verified against 'writes no pre-existing document node when context.DontAutoCreate': " + inf.reason
			d += "\n" + P.blameChain(U, inf, 0)
		}
		res = append(res, extraResult{Name: "readonly/" + name, Kind: "inferred-frame", OK: ok, Detail: d})
	}
	// second sentence of the property: operand / predicate / key evaluation is side-effect free unconditionally
	for _, h := range P.handlersOf("unconditional") {
		name := P.relName(h)
		inf := U[h]
		if inf == nil {
			con := P.contractFor(h)
			// ghost state (the evaluation log) aside, the contract must state no writes
			realMods := 0
			if con != nil {
				for _, m := range con.Modifies {
					if id, isId := m.Expr.(*ast.Ident); !isId || fileGhosts[id.Name] == "" {
						realMods++
					}
				}
			}
			ok := con != nil && !con.flag("synth") && !con.flag("trusted") && realMods == 0 && con.ReadonlyIf == nil
			res = append(res, extraResult{Name: "operands-readonly/" + name, Kind: "inferred-frame", OK: ok, Detail: "hand-written unconditional frame contract"})
			continue
		}
		ok := inf.class == clsPure && len(inf.writable()) == 0
		d := fmt.Sprintf("inferred: %s writes=%v", inf.class, inf.writable())
		if !ok {
			d += "\nthe handler is only read-only when the incoming context already is: it evaluates an operand, predicate or key in the caller's (possibly writable) context\nfailing obligation as PURE: " + inf.pureReason
		}
		res = append(res, extraResult{Name: "operands-readonly/" + name, Kind: "inferred-frame", OK: ok, Detail: d})
	}
	// overridden (known-defect) functions
	var ovNames []string
	for n := range ov {
		ovNames = append(ovNames, n)
	}
	sort.Strings(ovNames)
	for _, n := range ovNames {
		fn := P.funcs[n]
		inf := U[fn]
		if fn == nil || inf == nil {
			res = append(res, extraResult{Name: "frame-defect/" + n, Kind: "inferred-frame", OK: true, Detail: "function not reached any more"})
			continue
		}
		if len(inf.expectedHit) > 0 {
			res = append(res, extraResult{Name: "frame-defect/" + n, Kind: "inferred-frame", OK: false, Detail: ov[n].What + "\nfailing obligations: " + strings.Join(inf.expectedHit, "; ")})
		} else {
			res = append(res, extraResult{Name: "frame-defect/" + n, Kind: "inferred-frame", OK: true, Detail: "the listed obligations no longer fail"})
		}
		if len(inf.unexpected) > 0 {
			res = append(res, extraResult{Name: "frame/" + n + "/unexpected", Kind: "inferred-frame", OK: false, Detail: "failing frame obligations beyond the known ones: " + strings.Join(inf.unexpected, "; ")})
		}
	}
	for i := range res {
		res[i].Ms = c08Ms + time.Since(t0).Milliseconds()
	}
	return res
}

// blameChain follows "call X is read-only only if false" reasons down to the function that actually writes.
func (P *Program) blameChain(U map[*ssa.Function]*inferred, inf *inferred, depth int) string {
	if depth > 8 || inf == nil {
		return ""
	}
	r := inf.reason
	i := strings.Index(r, "/frame-call/call ")
	if i < 0 {
		return "  root cause: " + r
	}
	rest := r[i+len("/frame-call/call "):]
	callee := rest
	for _, sep := range []string{" is read-only", " modifies", " has no frame"} {
		if j := strings.Index(callee, sep); j >= 0 {
			callee = callee[:j]
		}
	}
	callee = strings.TrimSpace(callee)
	if fn := P.funcs[callee]; fn != nil {
		if c := U[fn]; c != nil && c != inf {
			return "  via " + callee + " (" + c.class.String() + ")\n" + P.blameChain(U, c, depth+1)
		}
	}
	return "  root cause: " + r
}

func init() {
	prepareChecks["C08"] = prepareC08
	extraChecks["C08"] = append(extraChecks["C08"], frameChecksC08)
}
