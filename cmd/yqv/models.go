package main

// Assumed contracts ("models") of library functions. Every model used in a run is listed in the
// evidence file as an assumption; none of them is verified.

import (
	"fmt"
	"go/types"
	"strings"

	"golang.org/x/tools/go/ssa"
)

type modelFn func(g *gen, st *state, c *ssa.CallCommon, args []string, instr ssa.Instruction) []string

type modelEffect struct {
	strong    []string
	allocates bool
	nonDoc    bool // may write anything but document nodes and lists
}

var models map[string]modelFn
var modelEffects map[string]modelEffect

const sbHeap = "SB.content"
const sbSort = "(Array Int RSeq)"
const listLenHeap = "L.len"
const listValHeap = "H.list.Element.Value"

func (g *gen) listLenArr(st *state) string { return g.heapVar(st, listLenHeap, "(Array Int Int)") }
func (g *gen) listValArr(st *state) string { return g.heapVar(st, listValHeap, "(Array Int Iface)") }
func (g *gen) listLen(st *state, l string) string {
	return app("select", g.listLenArr(st), l)
}
func (g *gen) listAt(st *state, l, i string) string {
	return app("select", g.listValArr(st), app("elemOf", l, i))
}

func (g *gen) nilCheck(instr ssa.Instruction, what, ref string) {
	if g.opts.safety {
		g.obligeAssume("nil", what, instr.Pos(), sNot(sEq(ref, "0")), nil)
	} else {
		g.assume(sNot(sEq(ref, "0")))
	}
}

func (g *gen) used(name string) { g.P.usedAssumption("model: " + name) }

func init() {
	models = map[string]modelFn{}
	modelEffects = map[string]modelEffect{}
	def := func(name string, eff modelEffect, f modelFn) {
		models[name] = func(g *gen, st *state, c *ssa.CallCommon, args []string, instr ssa.Instruction) []string {
			g.used(name)
			return f(g, st, c, args, instr)
		}
		modelEffects[name] = eff
	}
	none := modelEffect{}
	listW := modelEffect{strong: []string{listLenHeap, listValHeap}}

	// ---- container/list ------------------------------------------------------------------------
	def("container/list.New", modelEffect{allocates: true}, func(g *gen, st *state, c *ssa.CallCommon, a []string, in ssa.Instruction) []string {
		r := g.newRef(st, "list")
		g.setHeap(st, listLenHeap, "(Array Int Int)", app("store", g.listLenArr(st), r, "0"))
		return []string{r}
	})
	def("(*container/list.List).Init", listW, func(g *gen, st *state, c *ssa.CallCommon, a []string, in ssa.Instruction) []string {
		g.nilCheck(in, "list.Init", a[0])
		g.frameObject(st, listLenHeap, a[0], in, "list.Init")
		g.setHeap(st, listLenHeap, "(Array Int Int)", app("store", g.listLenArr(st), a[0], "0"))
		return []string{a[0]}
	})
	def("(*container/list.List).Len", none, func(g *gen, st *state, c *ssa.CallCommon, a []string, in ssa.Instruction) []string {
		g.nilCheck(in, g.exprText(c.Args[0])+".Len()", a[0])
		g.assume(app(">=", g.listLen(st, a[0]), "0"))
		return []string{g.listLen(st, a[0])}
	})
	def("(*container/list.List).Front", none, func(g *gen, st *state, c *ssa.CallCommon, a []string, in ssa.Instruction) []string {
		g.nilCheck(in, g.exprText(c.Args[0])+".Front()", a[0])
		g.assume(app(">=", g.listLen(st, a[0]), "0"))
		return []string{g.define("front", "Int", sIte(app(">", g.listLen(st, a[0]), "0"), app("elemOf", a[0], "0"), "0"))}
	})
	def("(*container/list.List).Back", none, func(g *gen, st *state, c *ssa.CallCommon, a []string, in ssa.Instruction) []string {
		g.nilCheck(in, g.exprText(c.Args[0])+".Back()", a[0])
		g.assume(app(">=", g.listLen(st, a[0]), "0"))
		n := g.listLen(st, a[0])
		return []string{g.define("back", "Int", sIte(app(">", n, "0"), app("elemOf", a[0], app("-", n, "1")), "0"))}
	})
	def("(*container/list.Element).Next", none, func(g *gen, st *state, c *ssa.CallCommon, a []string, in ssa.Instruction) []string {
		g.nilCheck(in, g.exprText(c.Args[0])+".Next()", a[0])
		l, i := app("elList", a[0]), app("elIdx", a[0])
		return []string{g.define("next", "Int", sIte(app("<", app("+", i, "1"), g.listLen(st, l)), app("elemOf", l, app("+", i, "1")), "0"))}
	})
	def("(*container/list.Element).Prev", none, func(g *gen, st *state, c *ssa.CallCommon, a []string, in ssa.Instruction) []string {
		g.nilCheck(in, g.exprText(c.Args[0])+".Prev()", a[0])
		l, i := app("elList", a[0]), app("elIdx", a[0])
		return []string{g.define("prev", "Int", sIte(sAnd(app(">=", app("-", i, "1"), "0"), app("<=", i, g.listLen(st, l))), app("elemOf", l, app("-", i, "1")), "0"))}
	})
	def("(*container/list.List).PushBack", listW, func(g *gen, st *state, c *ssa.CallCommon, a []string, in ssa.Instruction) []string {
		g.nilCheck(in, g.exprText(c.Args[0])+".PushBack()", a[0])
		g.frameObject(st, listLenHeap, a[0], in, g.exprText(c.Args[0])+".PushBack")
		n := g.define("n", "Int", g.listLen(st, a[0]))
		g.assume(app(">=", n, "0"))
		e := g.define("pushed", "Int", app("elemOf", a[0], n))
		g.setHeap(st, listValHeap, "(Array Int Iface)", app("store", g.listValArr(st), e, a[1]))
		g.setHeap(st, listLenHeap, "(Array Int Int)", app("store", g.listLenArr(st), a[0], app("+", n, "1")))
		return []string{e}
	})
	def("(*container/list.List).PushBackList", listW, func(g *gen, st *state, c *ssa.CallCommon, a []string, in ssa.Instruction) []string {
		g.nilCheck(in, g.exprText(c.Args[0])+".PushBackList()", a[0])
		g.nilCheck(in, g.exprText(c.Args[1])+" (PushBackList argument)", a[1])
		g.frameObject(st, listLenHeap, a[0], in, g.exprText(c.Args[0])+".PushBackList")
		n := g.define("n", "Int", g.listLen(st, a[0]))
		m := g.define("m", "Int", g.listLen(st, a[1]))
		g.assume(sAnd(app(">=", n, "0"), app(">=", m, "0")))
		old := g.listValArr(st)
		nv := g.newConst(listValHeap+"@", "(Array Int Iface)")
		g.assert(fmt.Sprintf("(forall ((r Int)) (! (= (select %s r) (ite (and (= (elList r) %s) (<= %s (elIdx r)) (< (elIdx r) (+ %s %s))) (select %s (elemOf %s (- (elIdx r) %s))) (select %s r))) :pattern ((select %s r))))",
			nv, a[0], n, n, m, old, a[1], n, old, nv))
		st.heap[listValHeap] = nv
		g.setHeap(st, listLenHeap, "(Array Int Int)", app("store", g.listLenArr(st), a[0], app("+", n, m)))
		return nil
	})
	unsupportedList := func(name string) {
		def(name, listW, func(g *gen, st *state, c *ssa.CallCommon, a []string, in ssa.Instruction) []string {
			g.note("%s is not modelled precisely: list contents unknown afterwards", name)
			g.frameObject(st, listLenHeap, a[0], in, name)
			st.heap[listLenHeap] = g.newConst(listLenHeap+"@", "(Array Int Int)")
			st.heap[listValHeap] = g.newConst(listValHeap+"@", "(Array Int Iface)")
			return g.freshResults(st, c.Signature(), "list")
		})
	}
	unsupportedList("(*container/list.List).Remove")
	unsupportedList("(*container/list.List).PushFront")
	unsupportedList("(*container/list.List).PushFrontList")
	unsupportedList("(*container/list.List).InsertBefore")
	unsupportedList("(*container/list.List).InsertAfter")
	unsupportedList("(*container/list.List).MoveToFront")
	unsupportedList("(*container/list.List).MoveToBack")

	// ---- strings ----------------------------------------------------------------------------------
	def("strings.HasPrefix", none, func(g *gen, st *state, c *ssa.CallCommon, a []string, in ssa.Instruction) []string {
		return []string{app("str.prefixof", a[1], a[0])}
	})
	// strings.Map(f, s) with a function literal f that captures nothing and has a (checked) contract without
	// preconditions: every rune of the result is a non-negative value f returned for some rune — f's
	// postcondition, instantiated for each rune of the result (spec/shnames.smt2: mapSrc names the argument)
	def("strings.Map", none, func(g *gen, st *state, c *ssa.CallCommon, a []string, in ssa.Instruction) []string {
		m := g.newConst("mapped", "String")
		fn, ok := c.Args[0].(*ssa.Function)
		if !ok || len(fn.FreeVars) != 0 || len(fn.Params) != 1 {
			return []string{m}
		}
		con := g.P.contractFor(fn)
		if con == nil || con.flag("trusted") || len(con.Requires) != 0 || len(con.Ensures) == 0 {
			return []string{m}
		}
		g.useSpec("mapSrc")
		runeT := fn.Params[0].Type()
		e := &env{g: g, st: st, names: map[string]sval{}, lets: con.Lets}
		e.names[fn.Params[0].Name()] = g.goVal(app("mapSrc", m, "mk"), runeT)
		e.lookup = func(name string) (sval, bool) { return g.lookupCommon(e, name) }
		e.old = e
		e.results = []sval{g.goVal(app("runeAt", m, "mk"), runeT)}
		e.resNames = []string{""}
		nDecl, nAss := len(g.vc.Decls), len(g.vc.Asserts)
		var posts []string
		for _, en := range con.Ensures {
			posts = append(posts, g.specBool(e, en.Expr))
		}
		if len(g.vc.Decls) != nDecl || len(g.vc.Asserts) != nAss {
			// the postcondition needed auxiliary definitions: they would mention the bound variable
			g.vc.Decls, g.vc.Asserts = g.vc.Decls[:nDecl], g.vc.Asserts[:nAss]
			g.note("strings.Map: the postcondition of %s is not a closed term; result unconstrained", fn.Name())
			return []string{m}
		}
		g.assert(fmt.Sprintf("(forall ((mk Int)) (! (=> (and (<= 0 mk) (< mk (runeCount %s))) (and (>= (runeAt %s mk) 0) %s)) :pattern ((runeAt %s mk))))", m, m, sAnd(posts...), m))
		g.P.usedAssumption("strings.Map(f, s): every rune of the result is a non-negative value f returned for a rune of s (f's own postcondition is a checked contract)")
		return []string{m}
	})
	def("unicode/utf8.DecodeRuneInString", none, func(g *gen, st *state, c *ssa.CallCommon, a []string, in ssa.Instruction) []string {
		g.useSpec("runeCount")
		size := g.newConst("runesize", "Int")
		g.assert(sAnd(app("<=", "0", size), app("<=", size, "4")))
		g.P.usedAssumption("utf8.DecodeRuneInString(s): RuneError for the empty string, otherwise the first rune of s (assumed: s is valid UTF-8)")
		return []string{sIte(sEq(app("runeCount", a[0]), "0"), "65533", app("runeAt", a[0], "0")), size}
	})
	def("strings.HasSuffix", none, func(g *gen, st *state, c *ssa.CallCommon, a []string, in ssa.Instruction) []string {
		return []string{app("str.suffixof", a[1], a[0])}
	})
	def("strings.Contains", none, func(g *gen, st *state, c *ssa.CallCommon, a []string, in ssa.Instruction) []string {
		return []string{app("str.contains", a[0], a[1])}
	})
	def("strings.Compare", none, func(g *gen, st *state, c *ssa.CallCommon, a []string, in ssa.Instruction) []string {
		return []string{g.define("cmp", "Int", app("strcmp", a[0], a[1]))}
	})
	def("strings.TrimPrefix", none, func(g *gen, st *state, c *ssa.CallCommon, a []string, in ssa.Instruction) []string {
		return []string{g.define("trimmed", "String", sIte(app("str.prefixof", a[1], a[0]), app("str.substr", a[0], app("str.len", a[1]), app("-", app("str.len", a[0]), app("str.len", a[1]))), a[0]))}
	})
	def("strings.TrimSuffix", none, func(g *gen, st *state, c *ssa.CallCommon, a []string, in ssa.Instruction) []string {
		return []string{g.define("trimmed", "String", sIte(app("str.suffixof", a[1], a[0]), app("str.substr", a[0], "0", app("-", app("str.len", a[0]), app("str.len", a[1]))), a[0]))}
	})
	def("strings.Index", none, func(g *gen, st *state, c *ssa.CallCommon, a []string, in ssa.Instruction) []string {
		return []string{g.define("idx", "Int", app("str.indexof", a[0], a[1], "0"))}
	})
	def("strings.Repeat", none, func(g *gen, st *state, c *ssa.CallCommon, a []string, in ssa.Instruction) []string {
		if g.opts.safety {
			g.obligeAssume("panic", "strings.Repeat negative count", in.Pos(), app(">=", a[1], "0"), nil)
		}
		r := g.define("rep", "String", app("strRepeat", a[0], a[1]))
		g.assume(sEq(app("str.len", r), app("*", app("str.len", a[0]), a[1])))
		return []string{r}
	})
	def("strings.ReplaceAll", none, func(g *gen, st *state, c *ssa.CallCommon, a []string, in ssa.Instruction) []string {
		r := g.define("repl", "String", app("strReplaceAll", a[0], a[1], a[2]))
		if g.con.flag("runes") {
			if oc, ok := c.Args[1].(*ssa.Const); ok && oc.Value != nil {
				if old := constString(oc); len(old) == 1 && old[0] < 0x80 {
					g.runeFacts(c.Args[2], a[2])
					g.assume(sEq(app("runesOf", r), app("repSeq", app("runesOf", a[0]), fmt.Sprint(int(old[0])), app("runesOf", a[2]))))
				}
			}
		}
		return []string{r}
	})

	def("strings.EqualFold", none, func(g *gen, st *state, c *ssa.CallCommon, a []string, in ssa.Instruction) []string {
		return []string{app("equalFold", a[0], a[1])}
	})

	// ---- strings.Builder: ghost content as a rune sequence (spec/runes.smt2) -------------------------
	sbW := modelEffect{strong: []string{sbHeap}}
	def("(*strings.Builder).Grow", none, func(g *gen, st *state, c *ssa.CallCommon, a []string, in ssa.Instruction) []string {
		if g.opts.safety {
			g.obligeAssume("panic", "strings.Builder.Grow negative count", in.Pos(), app(">=", a[1], "0"), nil)
		}
		return nil
	})
	def("(*strings.Builder).WriteRune", sbW, func(g *gen, st *state, c *ssa.CallCommon, a []string, in ssa.Instruction) []string {
		h := g.heapVar(st, sbHeap, sbSort)
		g.setHeap(st, sbHeap, sbSort, app("store", h, a[0], app("snoc", app("select", h, a[0]), a[1])))
		n := g.newConst("n", "Int")
		return []string{n, "(mk-iface 0 0)"}
	})
	def("(*strings.Builder).WriteByte", sbW, func(g *gen, st *state, c *ssa.CallCommon, a []string, in ssa.Instruction) []string {
		h := g.heapVar(st, sbHeap, sbSort)
		g.setHeap(st, sbHeap, sbSort, app("store", h, a[0], app("snoc", app("select", h, a[0]), a[1])))
		return []string{"(mk-iface 0 0)"}
	})
	def("(*strings.Builder).WriteString", sbW, func(g *gen, st *state, c *ssa.CallCommon, a []string, in ssa.Instruction) []string {
		h := g.heapVar(st, sbHeap, sbSort)
		g.setHeap(st, sbHeap, sbSort, app("store", h, a[0], app("rapp", app("select", h, a[0]), app("runesOf", a[1]))))
		n := g.newConst("n", "Int")
		return []string{n, "(mk-iface 0 0)"}
	})
	def("(*strings.Builder).String", none, func(g *gen, st *state, c *ssa.CallCommon, a []string, in ssa.Instruction) []string {
		h := g.heapVar(st, sbHeap, sbSort)
		s := g.newConst("built", "String")
		g.assert(sAnd(sEq(app("runesOf", s), app("select", h, a[0])), sEq(app("runeCount", s), app("rlen", app("select", h, a[0])))))
		return []string{s}
	})
	def("(*strings.Builder).Len", none, func(g *gen, st *state, c *ssa.CallCommon, a []string, in ssa.Instruction) []string {
		n := g.newConst("sblen", "Int")
		g.assert(app(">=", n, "0"))
		return []string{n}
	})

	// ---- constructors of library objects: never nil
	nonNil := func(name string) {
		def(name, modelEffect{allocates: true}, func(g *gen, st *state, c *ssa.CallCommon, a []string, in ssa.Instruction) []string {
			r := g.newRef(st, "lib")
			return []string{r}
		})
	}
	for _, n := range []string{"bytes.NewBuffer", "github.com/goccy/go-json.NewDecoder", "github.com/goccy/go-json.NewEncoder", "bytes.NewBufferString", "bufio.NewWriter", "bufio.NewReader", "bufio.NewScanner", "strings.NewReader", "bytes.NewReader", "regexp.MustCompile"} {
		nonNil(n)
	}

	// ---- sort: calls back into Len/Less/Swap of the argument; assumed to permute the argument's elements and
	// to leave every document node alone (the yq implementations of Less are verified separately)
	sortModel := func(g *gen, st *state, c *ssa.CallCommon, a []string, in ssa.Instruction) []string {
		g.newEpoch(st, func(name, r string) string {
			if strings.HasPrefix(name, "E.") && !g.isDocHeap(name) {
				return g.privateKeep(name, r) // Swap permutes the elements of the argument
			}
			if r == "" {
				return "true"
			}
			return "weak"
		}, true)
		return nil
	}
	def("sort.Stable", modelEffect{allocates: true, nonDoc: true}, sortModel)
	def("sort.Sort", modelEffect{allocates: true, nonDoc: true}, sortModel)
	def("sort.Strings", modelEffect{allocates: true, nonDoc: true}, sortModel)

	// sort.Slice / sort.SliceStable(x, less) with a slice of non-document elements and a less function that
	// writes nothing (checked syntactically): the elements of x are permuted, nothing else changes. The
	// permutation is given as a pair of mutually inverse functions on [0, len). Nothing is said about the
	// order the elements end up in (that would need the body of less). Anything else: everything is havocked.
	sliceSortModel := func(g *gen, st *state, c *ssa.CallCommon, a []string, in ssa.Instruction) []string {
		var sl *types.Slice
		mi, ok := c.Args[0].(*ssa.MakeInterface)
		if ok {
			sl, ok = mi.X.Type().Underlying().(*types.Slice)
		}
		if ok {
			ok = pureLess(c.Args[1]) && !g.isDocHeap(elemHeap(sl.Elem()))
		}
		if !ok {
			g.note("sort.Slice*: argument not a slice of non-document elements or less not syntactically pure: everything havocked")
			g.newEpoch(st, func(name, r string) string {
				if r == "" {
					return "false"
				}
				return g.privateKeep(name, r)
			}, true)
			for al := range st.cells {
				if g.escaped[al] {
					st.cells[al] = g.newConst("cell."+sanitize(al.Comment), g.sorts.sortOf(deref(al.Type())))
				}
			}
			return nil
		}
		s := g.val(st, mi.X)
		base, off, n := app("s.base", s), app("s.off", s), app("s.len", s)
		if g.zeroOff[mi.X] {
			off = "0"
		}
		es := g.sorts.sortOf(sl.Elem())
		oldArr, hname := g.elemArr(st, sl.Elem())
		oldRow := g.define("sortrow", "(Array Int "+es+")", app("select", oldArr, base))
		saved := g.captured
		g.captured = nil // less writes nothing, so the variables it captures stay as they are
		g.newEpoch(st, func(name, r string) string {
			if name == hname {
				if r == "" {
					return "false"
				}
				return sNot(sEq(r, base))
			}
			return "true"
		}, false)
		g.captured = saved
		newArr, _ := g.elemArr(st, sl.Elem())
		newRow := g.define("sortedrow", "(Array Int "+es+")", app("select", newArr, base))
		perm, inv := g.fresh("perm"), g.fresh("inv")
		g.declareFun(perm, "(Int) Int")
		g.declareFun(inv, "(Int) Int")
		in01 := func(x string) string { return sAnd(app("<=", "0", x), app("<", x, n)) }
		g.assume(fmt.Sprintf("(forall ((i Int)) (! %s :pattern ((%s i))))", sImp(in01("i"), sAnd(in01(app(perm, "i")), sEq(app(inv, app(perm, "i")), "i"))), perm))
		g.assume(fmt.Sprintf("(forall ((j Int)) (! %s :pattern ((%s j))))", sImp(in01("j"), sAnd(in01(app(inv, "j")), sEq(app(perm, app(inv, "j")), "j"))), inv))
		g.assume(fmt.Sprintf("(forall ((i Int)) (! %s :pattern (%s)))", sImp(in01("i"), sEq(app("select", newRow, addOff(off, "i")), app("select", oldRow, addOff(off, app(perm, "i"))))), app("select", newRow, addOff(off, "i"))))
		g.assume(fmt.Sprintf("(forall ((k Int)) (! %s :pattern (%s)))", sImp(sOr(app("<", "k", addOff(off, "0")), app(">=", "k", addOff(off, n))), sEq(app("select", newRow, "k"), app("select", oldRow, "k"))), app("select", newRow, "k")))
		return nil
	}
	def("sort.SliceStable", modelEffect{allocates: true, nonDoc: true}, sliceSortModel)
	def("sort.Slice", modelEffect{allocates: true, nonDoc: true}, sliceSortModel)

	// ---- encoding/csv: a record read without an error has at least one field (the reader skips empty lines)
	def("(*encoding/csv.Reader).Read", modelEffect{allocates: true}, func(g *gen, st *state, c *ssa.CallCommon, a []string, in ssa.Instruction) []string {
		rec := g.newConst("csvrec", g.sorts.sortOf(c.Signature().Results().At(0).Type()))
		e := g.newConst("err", "Iface")
		g.assumeAllocated(st, rec, c.Signature().Results().At(0).Type())
		g.assume(sImp(sEq(app("i.typ", e), "0"), app(">", app("s.len", rec), "0")))
		g.assume(app(">=", app("s.len", rec), "0"))
		g.P.usedAssumption("encoding/csv: Reader.Read returns a record with at least one field when it returns no error")
		return []string{rec, e}
	})

	// ---- time -----------------------------------------------------------------------------------------
	def("(time.Time).Equal", none, func(g *gen, st *state, c *ssa.CallCommon, a []string, in ssa.Instruction) []string {
		return []string{sEq(app("instant", a[0]), app("instant", a[1]))}
	})
	def("(time.Time).Before", none, func(g *gen, st *state, c *ssa.CallCommon, a []string, in ssa.Instruction) []string {
		return []string{app("<", app("instant", a[0]), app("instant", a[1]))}
	})
	def("(time.Time).After", none, func(g *gen, st *state, c *ssa.CallCommon, a []string, in ssa.Instruction) []string {
		return []string{app(">", app("instant", a[0]), app("instant", a[1]))}
	})

	// ---- strconv / fmt / errors ---------------------------------------------------------------------
	def("strconv.Itoa", none, func(g *gen, st *state, c *ssa.CallCommon, a []string, in ssa.Instruction) []string {
		return []string{g.define("itoa", "String", app("itoa", a[0]))}
	})
	def("strconv.FormatInt", none, func(g *gen, st *state, c *ssa.CallCommon, a []string, in ssa.Instruction) []string {
		if a[1] == "10" {
			return []string{g.define("itoa", "String", app("itoa", a[0]))}
		}
		g.declareFun("formatInt", "(Int Int) String")
		return []string{g.define("fmtint", "String", app("formatInt", a[0], a[1]))}
	})
	def("strconv.ParseInt", none, func(g *gen, st *state, c *ssa.CallCommon, a []string, in ssa.Instruction) []string {
		// assumed: on success the value is intOfText(s, base) and fits the requested width
		v := g.newConst("parsed", "Int")
		e := g.newConst("perr", "Iface")
		ok := sEq(app("i.typ", e), "0")
		g.assert(sEq(ok, app("intTextOk", a[0], a[1], a[2])))
		g.assert(sImp(ok, sEq(v, app("intOfText", a[0], a[1]))))
		g.assert(sAnd(app("<=", "(- 9223372036854775808)", v), app("<=", v, "9223372036854775807")))
		g.assert(sImp(sAnd(ok, sEq(a[2], "64")), sAnd(app("<=", "(- 9223372036854775808)", app("intOfText", a[0], a[1])), app("<=", app("intOfText", a[0], a[1]), "9223372036854775807"))))
		return []string{v, e}
	})
	def("strconv.ParseFloat", none, func(g *gen, st *state, c *ssa.CallCommon, a []string, in ssa.Instruction) []string {
		v := g.newConst("parsedf", "Real")
		e := g.newConst("perr", "Iface")
		ok := sEq(app("i.typ", e), "0")
		// the value of the text only at full width: ParseFloat(s, 32) rounds to single precision (and overflows
		// earlier), so nothing is said about its value and a failure says nothing about the text
		w64 := sEq(a[1], "64")
		g.assert(sImp(ok, app("fltTextOk", a[0])))
		g.assert(sImp(w64, sEq(ok, app("fltTextOk", a[0]))))
		g.assert(sImp(sAnd(ok, w64), sEq(v, app("fltOfText", a[0]))))
		return []string{v, e}
	})
	def("strconv.Atoi", none, func(g *gen, st *state, c *ssa.CallCommon, a []string, in ssa.Instruction) []string {
		v := g.newConst("parsed", "Int")
		e := g.newConst("perr", "Iface")
		ok := sEq(app("i.typ", e), "0")
		g.assert(sEq(ok, app("intTextOk", a[0], "10", "0")))
		g.assert(sImp(ok, sEq(v, app("intOfText", a[0], "10"))))
		g.assert(sAnd(app("<=", "(- 9223372036854775808)", v), app("<=", v, "9223372036854775807")))
		return []string{v, e}
	})
	def("fmt.Sprintf", modelEffect{allocates: true}, func(g *gen, st *state, c *ssa.CallCommon, a []string, in ssa.Instruction) []string {
		return []string{g.sprintf(st, c, a)}
	})
	def("fmt.Errorf", modelEffect{allocates: true}, func(g *gen, st *state, c *ssa.CallCommon, a []string, in ssa.Instruction) []string {
		e := g.newConst("err", "Iface")
		g.assert(sNot(sEq(app("i.typ", e), "0")))
		return []string{e}
	})
	def("errors.Is", none, func(g *gen, st *state, c *ssa.CallCommon, a []string, in ssa.Instruction) []string {
		// errors.Is(nil, target) is false for a non-nil target; nothing else is assumed
		r := g.newConst("errIs", "Bool")
		if u, ok := c.Args[1].(*ssa.UnOp); ok {
			if gl, ok := u.X.(*ssa.Global); ok && gl.Pkg != nil && !g.P.isYq(gl.Pkg.Pkg.Path()) {
				// sentinel errors of libraries (io.EOF, ...) are never nil
				g.assert(sNot(sEq(app("i.typ", a[1]), "0")))
				g.P.usedAssumption("library sentinel error " + gl.String() + " is non-nil")
			}
		}
		g.assert(sImp(sAnd(sEq(app("i.typ", a[0]), "0"), sNot(sEq(app("i.typ", a[1]), "0"))), sNot(r)))
		return []string{r}
	})
	def("errors.New", modelEffect{allocates: true}, func(g *gen, st *state, c *ssa.CallCommon, a []string, in ssa.Instruction) []string {
		e := g.newConst("err", "Iface")
		g.assert(sNot(sEq(app("i.typ", e), "0")))
		return []string{e}
	})
}

// sprintf: "%v" of one argument is sprintv(arg) with the integer and string cases axiomatised;
// anything else is an uninterpreted function of the format and the argument values.
func (g *gen) sprintf(st *state, c *ssa.CallCommon, a []string) string {
	var elems []string
	known := false
	if len(c.Args) == 2 {
		if sl, ok := c.Args[1].(*ssa.Slice); ok {
			if al, ok := sl.X.(*ssa.Alloc); ok && al.Comment == "varargs" {
				n := int(deref(al.Type()).Underlying().(*types.Array).Len())
				h, _ := g.elemArr(st, deref(al.Type()).Underlying().(*types.Array).Elem())
				for i := 0; i < n; i++ {
					elems = append(elems, app("select", app("select", h, g.vals[al]), fmt.Sprint(i)))
				}
				known = true
			}
		} else if cst, ok := c.Args[1].(*ssa.Const); ok && cst.Value == nil {
			known = true
		}
	}
	if !known {
		return g.newConst("sprintf", "String")
	}
	g.needSprintv()
	if a[0] == `"%v"` && len(elems) == 1 {
		return g.define("sprintv", "String", app("sprintv", elems[0]))
	}
	if len(elems) == 0 {
		// no verbs expected; the result is the format itself when it has no '%'
		r := g.newConst("sprintf", "String")
		g.assert(sImp(sNot(app("str.contains", a[0], `"%"`)), sEq(r, a[0])))
		return r
	}
	fn := fmt.Sprintf("sprintf.%d", len(elems))
	sig := "(String"
	for range elems {
		sig += " Iface"
	}
	sig += ") String"
	g.declareFun(fn, sig)
	r := g.define("sprintf", "String", app(fn, append([]string{a[0]}, elems...)...))
	if len(elems) == 1 {
		// a format that is not a constant: when it turns out to be "%v" the value is printed plainly
		g.assert(sImp(sEq(a[0], `"%v"`), sEq(r, app("sprintv", elems[0]))))
	}
	return r
}

func (g *gen) needSprintv() {
	if g.declared["sprintv"] {
		return
	}
	g.declared["sprintv"] = true
	it := g.sorts.typeTag(types.Typ[types.Int])
	it64 := g.sorts.typeTag(types.Typ[types.Int64])
	st := g.sorts.typeTag(types.Typ[types.String])
	var moreInts []string // %v of every integer kind is its decimal text
	for _, k := range []types.BasicKind{types.Uint, types.Uint64, types.Int32, types.Uint32, types.Int16, types.Uint16, types.Int8, types.Uint8} {
		moreInts = append(moreInts, fmt.Sprintf("(= (i.typ x) %s)", g.sorts.typeTag(types.Typ[k])))
	}
	g.sorts.boxSorts["String"] = true
	g.vc.Decls = append(g.vc.Decls, "(declare-fun sprintv (Iface) String)")
	g.vc.Asserts = append(g.vc.Asserts,
		fmt.Sprintf("(forall ((x Iface)) (! (and (=> (or (= (i.typ x) %s) (= (i.typ x) %s) %s) (= (sprintv x) (itoa (i.val x)))) (=> (= (i.typ x) %s) (= (sprintv x) (unbox.String (i.val x))))) :pattern ((sprintv x))))", it, it64, strings.Join(moreInts, " "), st),
		"(forall ((i Int)) (! (= (box.String (unbox.String i)) i) :pattern ((unbox.String i))))",
	)
}

// pureLess: the function value is a closure made on the spot whose body stores nothing and calls nothing
// (index expressions, comparisons and len only).
func pureLess(v ssa.Value) bool {
	mc, ok := v.(*ssa.MakeClosure)
	if !ok {
		return false
	}
	fn, ok := mc.Fn.(*ssa.Function)
	if !ok {
		return false
	}
	for _, b := range fn.Blocks {
		for _, in := range b.Instrs {
			switch x := in.(type) {
			case *ssa.Store, *ssa.MapUpdate, *ssa.Send, *ssa.Go, *ssa.Defer, *ssa.MakeClosure, *ssa.RunDefers, *ssa.Select:
				return false
			case *ssa.Call:
				if bi, ok := x.Call.Value.(*ssa.Builtin); !ok || (bi.Name() != "len" && bi.Name() != "cap") {
					return false
				}
			}
		}
	}
	return true
}
