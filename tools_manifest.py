#!/usr/bin/env python3
"""Regenerates MANIFEST.json from the table below (run after adding a property check)."""
import json, sys

ENV = "GOFLAGS=-mod=mod GOPROXY=off GOSUMDB=off GOTOOLCHAIN=local"

claimed = {
 # id: (technique, level text, level_note, design_ref)
 "C03": ("contract-based deductive verification: weakest-precondition VCs from go/ssa, discharged by z3/cvc5",
         "Function-level proof for all inputs: deleteFromArray removes exactly the element whose index text equals the path element, keeps the order of the rest and renumbers them (loop invariants + postconditions discharged by SMT). Partial: the property's union law and the container producers are not decided here.",
         "Trusted: go/ssa, the yqv translator, spec library, assumed library models (fmt.Sprintf %v on ints/strings injective), slice len <= 2^56, append-copies model. Callers must establish the preconditions (non-nil elements with distinct Key objects).",
         "DESIGN.md §5 C03"),
}

claimed["C15"] = ("contract-based deductive verification: weakest-precondition VCs from go/ssa + SMT lemmas over the order spec, discharged by z3/cvc5",
  "The sort comparator is proved, for all pairs of core-tagged scalars whose text parses as tagged, to return exactly the sign given by the order specification cmpSpec (64-bit wrap-around modelled); the property's clauses (reflexive, antisymmetric, transitive, null<bool<rest, false<true, numbers by value whatever the spelling, strings by byte order) are proved as lemmas about cmpSpec; stability: sortByOperator hands its array to sort.Stable and no yq function calls an unstable library sort (table check over the real code).",
  "Trusted: go/ssa, yqv, spec library; assumed contracts for strconv.ParseInt/ParseFloat, time.Parse, strings.Compare/EqualFold, sort.Stable; floats as reals (no NaN); custom tags and non-default datetime layouts outside the lemma domain. Known findings carve out int/float beyond 2^53 and number/string mixes.",
  "DESIGN.md §5 C15")

claimed["C17"] = ("contract-based deductive verification: loop invariant over a POSIX shell-lexing spec function (snoc-recursive), discharged by z3/cvc5; regexp character class discharged by exhaustive execution",
  "shEncoder.encode is proved for every input string to produce one shell word that the POSIX tokenisation spec (unquoted / single-quoted / backslash states) maps back to exactly the input, with no character special to the shell outside quotes; the regexp-based shouldQuote is checked by executing it on all 1,114,112 code points; the NAME character classes of -o=shell are proved exact.",
  "Trusted: the shell-lexing spec function stands for a real /bin/sh; strings.Builder model; valid UTF-8 input; NUL excluded. Not yet under contract: quoteValue's quoted branch (strings.ReplaceAll) and appendPath (NFKD).",
  "DESIGN.md §5 C17")

claimed["C09"] = ("contract-based deductive verification: shunting-yard loop invariants and expression-tree postconditions as VCs from go/ssa (z3/cvc5) + table checks over the operator table",
  "ConvertToPostfix is proved to keep the operator stack non-decreasing in precedence between brackets (a tighter operator is emitted before a looser one that follows; equal precedences left open), to move only operations to the output, to pop closers to the matching opener or fail, and createExpressionTree to return either an error or a root whose arity matches its operator; the operator table is checked for arity 0..2, handlers, immutability and the documented class order. Executed exhaustively over the lexer rule table: every keyword of every word rule lexes to its own rule (F10 found and fixed). BOUNDED (not proved): layout/comment insensitivity (40 expressions x 9 separators through the real lexer; tab/CR defect found and fixed) and bracket balance (every token sequence of length <= 5, thorough <= 6, over 9 tokens whose brackets do not match must be refused; a stray-bracket defect found and fixed). Partial: end-to-end equality with the parenthesised form is not decided.",
  "Trusted: go/ssa, yqv, the class order file tables/precedence_classes.json (taken from the docs), lexer output well-formedness (precondition wfToken) until handleToken is under contract.",
  "DESIGN.md §5 C09")
claimed["C11"] = ("contract-based deductive verification: zero-annotation panic-freedom obligations (index, slice, nil, type assertion, division, explicit panic, makeslice) and loop variants generated from go/ssa for every function under contract, discharged by z3/cvc5",
  "For every function under contract for any property, each potentially panicking instruction is an obligation proved from the function's preconditions for all inputs; explicit panic calls must be unreachable; loops with a stated variant terminate. Plus a zero-annotation sweep over the 500-odd yq functions WITHOUT a contract: their index/slice/division/make/type-assertion/panic obligations are generated without preconditions, and the 443 provable that way (recorded by name in tables/c11_sweep_proved.json) are re-proved on every run, so a removed guard fails. Partial: nil dereferences outside the contract set, libraries, decoders driven by external parsers, recursion depth and memory are not covered; two cobra drivers and the explode walkers are excluded (flag nosafety, listed in evidence).",
  "Trusted: callers establish the stated preconditions (each call site inside the contract set is itself an obligation); assumed library models; trusted contracts listed in evidence.",
  "DESIGN.md §5 C11")

claimed["C08"] = ("contract-based deductive verification: frame (modifies) obligations generated from go/ssa and discharged by z3/cvc5; frame contracts of helper functions inferred and verified by a greatest-fixed-point (Houdini) iteration over the call graph",
  "For every handler of the read-only operator set the obligation 'no store into a pre-existing document node when the context has DontAutoCreate' is proved for all inputs, transitively through every yq function it can reach (187 functions; each inferred summary is verified against the function body assuming the callees' summaries; hand-written contracts for the dispatcher and tree primitives); operators whose operands/predicates/keys must be side-effect free unconditionally are required to be PURE. Known findings F3 (==, <, //) and F5 (index reads pad arrays / retag nulls) are carved out by obligation name with replayed witnesses.",
  "Standing assumption: the evaluated expression contains only operators of tables/readonly_ops.json (the property's hypothesis); the dispatcher contract is trusted and established handler by handler; encodeToString is read-only for YAML (assumed); external libraries do not write yq nodes; Go maps unmodelled.",
  "DESIGN.md §5 C08")

claimed["C02"] = ("contract-based deductive verification: postconditions and frames of the update primitives as VCs from go/ssa, discharged by z3/cvc5",
  "Node-level update laws proved for all inputs: UpdateFrom is a no-op on self-assignment (get-put), otherwise leaves the target with the source's kind, value and as many fresh child copies (put-get), with the custom-tag / anchor / comment retention rules; UpdateAttributesFrom's attribute table; AddChild/AddKeyValueChild/AddChildren append exactly one/two/n fresh children with Parent set; the relative form |= visits matches back to front (ghost iteration counter) and returns the input context. Partial: path-level laws (prefix compatibility, multi-match, put-put over whole paths) and deep equality of copied subtrees are not decided.",
  "Trusted: dispatcher contract (GetMatchingNodes), kidsOK data-structure invariant assumed at the copy/add group, append-copies model.",
  "DESIGN.md §5 C02")
claimed["C07"] = ("contract-based deductive verification: frame (modifies) clauses and attribute-retention postconditions as VCs from go/ssa, discharged by z3/cvc5",
  "Every mutating primitive is proved to write only the fields of the node it is given (plus fresh nodes): UpdateFrom, UpdateAttributesFrom, AddChild, AddKeyValueChild, AddChildren, SetParent, deleteFromArray (Content + renumbered Key.Value of survivors), deleteFromMap; UpdateAttributesFrom keeps comments unless the source has one, style unless zero, anchor under DontOverWriteAnchor; the attribute assignment operators (tag, style, comments, anchor, attributes, =, |=) are proved to store only into the named attributes. Partial: which nodes the interpreter hands to the primitives, and the YAML emitter, are not decided.",
  "Trusted: dispatcher contract; the operators' frames cover their own stores and the primitives they call (nocallframe for the interpreter re-entry).",
  "DESIGN.md §5 C07")
claimed["C16"] = ("contract-based deductive verification: postconditions of the key/path primitives as VCs from go/ssa, discharged by z3/cvc5",
  "getParsedKey returns the node's own text for map keys, nil without a key, the key text for !!str keys and the parsed integer otherwise; GetPath is non-empty for keyed nodes; AddChild gives an unkeyed child the index it is appended at and AddKeyValueChild pairs the value with the fresh key; Copy gives a fresh, unshared key; deleteFromArray renumbers the survivors; to_entries gives a sequence element the key of its position and a map entry its own key/value pair; a replacement is always a fresh copy carrying the replaced node's parent and key. Partial: the well-formedness of containers rebuilt by sort/reverse/slice/collect (stale keys, F6) and the step from well-formedness to 'traversing path(n) returns n' are not decided here yet.",
  "Trusted: decimal printing injective; kidsOK invariant.",
  "DESIGN.md §5 C16")

claimed["C12"] = ("contract-based deductive verification over a ghost file-system model: pre/postconditions and an after-every-call invariant as VCs from go/ssa, discharged by z3/cvc5",
  "With assumed POSIX contracts for rename (atomic), create (truncates), copy (may stop half-way), remove, chmod, stat: CreateTempFile never touches the target and gives the temporary file the target's mode; FinishWriteInPlace(false) leaves the target as it was, FinishWriteInPlace(true) ends with the complete new content or reports an error with the target untouched; evaluateSequence / evaluateAll return a non-nil error only with the target unchanged (the deferred finisher runs FinishWriteInPlace(completedSuccessfully) only when the command has not failed). Known finding F9: the copy fallback truncates first (crash window and failure case), carved out by obligation with a replayed witness. Partial: kernel behaviour, kill timing and --front-matter byte preservation are not decided.",
  "Trusted: the ghost file-system contracts in the contract file (os.Rename/Create/Open/Remove/Chmod/Stat/CreateTemp, io.Copy); evaluation and printing are assumed not to touch the target except through these calls; the interface-level contract of writeInPlaceHandler.",
  "DESIGN.md §5 C12")
claimed["C19"] = ("contract-based deductive verification: error-propagation obligations (ghost flag) generated without annotation from go/ssa for every yq function that returns an error, discharged by z3/cvc5; plus the in-place/exit contracts of the cmd package",
  "For each of the 370 yq functions that return an error, at every return: if a callee's error was tested against nil (and not inspected, wrapped or deliberately recovered from — the recoveries are listed in tables/errprop_handled.json), the function returns a non-nil error — for all inputs; evaluateSequence/evaluateAll return their evaluation error through the deferred in-place finisher; the XML encoder refuses a non-scalar attribute instead of dropping it; printNode's -e bookkeeping never resets. Partial: -e bookkeeping of printNode, exit codes in main/cobra, format auto-detection tables and 'nothing dropped inside library encoders' are not decided yet.",
  "Trusted: the classification of an error value as 'plain' (only compared with nil) is syntactic; handled-error table; external libraries.",
  "DESIGN.md §5 C19")

claimed["C10"] = ("contract-based deductive verification: call-site assertions, loop invariants and ghost counters (documents decoded, iteration position) as VCs from go/ssa, discharged by z3/cvc5; frames of unverified callees ('keeps' clauses) discharged on an over-approximated call graph",
  "Proved for all inputs and all iteration counts: the stream evaluator hands every decoded document to the expression alone in a one-element list, stamped with document = number of documents decoded before it in this file, filename = the file being read, fileIndex = the number of files finished before (Evaluate, EvaluateFiles: files visited in argument order, fileIndex advances by one per finished file, no callee that can be reached writes the evaluator's fields); readDocuments returns every document of a file in decode order with document = its position, filename, fileIndex and EvaluateTogether set; the all-at-once evaluator reads files in argument order with their true index and passes the expression one list ordered by (fileIndex, document); the printer's separator state after each printed result is that result's document and file index (PrintResults loop invariants; F8 found here and fixed). Partial: 'the results equal running the expression on each document separately' rests on the trusted dispatcher contract and on C08/C18 for independence from earlier documents; the decoders' own document counting, -N, empty/comment-only documents and front-matter are not decided.",
  "Trusted: contracts of Decoder.Init/Decode (fresh node per document, writes no existing node), Printer/Encoder/PrinterWriter interface contracts, dispatcher contract, ParseExpression writes no document/list; rootDocument/rootFileIndex of a result are the stamps of its document root (assumed clause on GetDocument/GetFileIndex); call-graph frames assume no reflection-based method calls; fewer than 2^62 documents/files (machine integers otherwise modelled with wrap-around).",
  "DESIGN.md §5 C10")

claimed["C01"] = ("contract-based deductive verification: combinator laws as call-site assertions over the arguments of every evaluation (ghost log of the last two result lists), loop invariants over container/list, and scalar kernels against spec functions with 64-bit wrap-around, as VCs from go/ssa discharged by z3/cvc5",
  "Proved for all inputs: `|` evaluates its left side on the input context and its right side on exactly the left side's result list, and returns the right side's result list; `,` evaluates both sides on the input and returns the left results followed by the right results; binary operators (doCrossFunc/resultsForRHS/crossFunctionWithPrefs) evaluate the left side once per group, the right side once per left result, call the calculation on (left_i, right_j) for i outer / j inner in list order, append results in that order, and group per input node unless every input is marked EvaluateTogether; select keeps exactly the inputs whose predicate (evaluated read-only on that input alone) yields some truthy result; any/all: without a condition the answer is the existential over the elements, with one every element is asked read-only and a 'no' is given only after all were asked; array indexing returns element i, or n+i for negative i, errors only for non-numbers or i < -n; `.[a:b]` clamps and copies elements from..to-1 (F2 panic found here and fixed); integer +, -, *, % equal the int64 (wrap-around) result of the parsed operands printed in decimal, `% 0` is an error, adding/subtracting/modulo of undefined type pairs is an error. Known finding F16 (`., .`). Partial: the denotation of each handler is the trusted dispatcher contract; float arithmetic and formatting, hex/octal reprinting, string operators, collect/object construction, group_by/unique/flatten/entries/contains, reduce/variables, length/keys/has and the lexer/parser half (see C09) are not decided here.",
  "Trusted: dispatcher contract (its result list is logged in ghost state; it writes only document nodes), variableLoop (`as $x`), functype contracts of calculations; strconv/fmt models (Sprintf \"%v\" of an int64 is its decimal text); a list made by list.New() and handed only to list methods or non-leaking callees is not returned by unrelated calls (checked syntactically).",
  "DESIGN.md §5 C01")

claimed["C13"] = ("contract-based deductive verification: one-level postconditions and two-state monotone frame predicates (quantified over all document nodes) on the mutually recursive explode functions, as VCs from go/ssa discharged by z3/cvc5, each recursive call checked against and assumed to meet the same contract; the merge-key precedence of path traversal (ordered map from an external library) by a BOUNDED executed check",
  "Proved for all inputs (one level per call, the tree by induction over the recursion): explodeNode leaves no anchor on its node; an alias with a target takes the target's kind, value, tag and style and stops being an alias, and for sequence targets receives as many elements, each without anchor or alias (defect found here and fixed: the copied content was not exploded); every element of an exploded sequence has no anchor and is no alias; scalars keep value, tag and style; across every call anchors are only ever removed, non-alias nodes keep kind/value/tag/style, sequences keep their content, nil aliases stay nil; overrideEntry explodes the value on every path that keeps it; a merge of a non-map is an error; while decoding, the most recent node carrying an anchor name is the one recorded for it and an alias points at the node recorded for its name (Go map modelled as value/presence arrays). BOUNDED (not proved): 4 executed enumerations (all subsets of 2 keys in anchor(s) and explicit entries, explicit keys before/after `<<`, merge lists of two; 3 read routes; 96+96+64+32 reads) compare traversal, explode and JSON output with the YAML merge rules; known findings F7a (explicit key before `<<` loses) and F7b (merge-list order differs between traversal and explode).",
  "Trusted/assumed: alias targets are not aliases, children are non-nil, maps have an even number of children (decoder invariants, assumed at entry); panic-freedom of the recursive walkers is not claimed (flag nosafety); append copies; the maps' content after reconstructAliasedMap (which keys survive, in which order) is only covered by the bounded checks; traversal (doTraverseMap/traverseMergeAnchor) is not under contract.",
  "DESIGN.md §5 C13")

claimed["C18"] = ("contract-style frame obligations discharged on an over-approximated call graph of the real code (go/ssa): one obligation per package-level variable, per field-set of every type reachable from a package-level variable, and per mutable field of every Decoder implementation; plus executed regression replays of the defects found",
  "History half only. Proved on the call graph, for all inputs and histories: no function reachable from any evaluation entry point (every implementation of DataTreeNavigator.GetMatchingNodes, ExpressionParserInterface.ParseExpression, Encoder.*, Decoder.*, Printer.PrintResults, the three evaluators) stores into a package-level variable of yqlib or into a field of an object type held by one (operator descriptors, lexer rules, formats, configured preferences) — except lazy initialisation with non-nil values and the one tolerated idempotent write listed in tables/c18_allowed.json; every Decoder's Init assigns, on every successful path, each field that anything but the constructor stores into, so a reused decoder starts each input afresh. Three defects found and fixed (TOML and Lua decoders dropped every input after the first; envsubst rewrote a shared operator descriptor). NOT decided: the concurrency half (interleavings, data races — no thread model in this technique), state inside external libraries, encoder/printer objects reused across evaluations (resultsPrinter carries separator state by design, see C10), the decoders that load operators capture in closures (covered only through the Init-reset obligations), and byte-for-byte determinism of map iteration in libraries.",
  "Assumed: Go memory safety (a field changes only through a store to its address); no reflection-based method calls, unsafe or cgo; library callbacks limited to function values whose type names no yq type and to methods of interfaces declared outside yq; package cmd's globals (flags) are set before evaluation.",
  "DESIGN.md §5 C18")

claimed["C04"] = ("contract-based deductive verification: call-site assertions on the arguments of every assignment the merge performs, and postconditions of its helpers, as VCs from go/ssa discharged by z3/cvc5",
  "Mechanism only. Proved for all inputs: `x * y` on maps/sequences merges into a fresh copy of x (never x or y themselves) under a writable context; a null right operand gives a copy of x; mergeObjects performs exactly one assignment per node of the right operand's recursive descent, in that order, skipping `!!merge` keys, and returns the node it was given to fill; each assignment targets the left node alone, takes its value from that right node by reference, and uses the operator the flags select (`+` on sequences: append; sequences without `d`, scalars and aliases: plain assign; otherwise attribute assign), never in update mode; the comment-precedence table of getComments. NOT decided: the merged value itself (it is computed by re-entering the interpreter with the synthesised assignment; the path it addresses comes from createTraversalTree and the recursive descent, both assumed), the algebraic identities (a * {} = a, a * a = a), the `?`/`n` flags inside the assign operators, the multi-file reduce form, and that x and y read the same afterwards (the dispatcher's contract is too coarse for that under a writable context).",
  "Trusted: dispatcher contract, recursiveDecent (appends the nodes under its context in document order), createTraversalTree; functype contract of calculations.",
  "DESIGN.md §5 C04")
claimed["C05"] = ("contract-based deductive verification: postconditions and loop invariants of the yaml.v3 <-> candidate node conversion as VCs from go/ssa (fields of the external yaml.Node struct modelled as heap), discharged by z3/cvc5; recursion by contract; the decoder's leading-content pre-processing by a BOUNDED executed differential check against yaml.v3",
  "Proved for all inputs, one level per call and the tree by induction over the recursion: converting a yaml.v3 node into a candidate node (UnmarshalYAML, decodeIntoChild, copyFromYamlNode) and back (MarshalYAML, copyToYamlNode) keeps, for every node, the style number, tag, value, anchor, head/line/foot comment, line and column, maps the kind one-to-one (alias, scalar, mapping, sequence), keeps the number and order of children, and refuses unknown kinds; MapYamlStyle/MapToYamlStyle are the identity on style numbers. Together: yaml.Node -> CandidateNode -> yaml.Node reproduces those attributes. BOUNDED (not proved): 9324 streams whose first line is a prefix of 1..4 characters over {a # space : - \"} with 3 continuations, alone or followed by a mapping line: whenever yaml.v3 accepts the stream, `yq .` accepts it and its output parses to the same data. NOT decided: yaml.v3's own parsing and emitting, the leading-content pre-processing beyond that bound and its re-emission, document nodes and alias pointers (copyToYamlNode does not set Alias; the emitter prints the value), the printer's separators (see C10), byte-for-byte idempotence.",
  "Trusted: children of yaml nodes are non-nil and mappings have an even number of children (library invariant, assumed at entry); append/make copy semantics.",
  "DESIGN.md §5 C05")
claimed["C06"] = ("contract-based deductive verification: postconditions of the scalar conversion tables as VCs from go/ssa, discharged by z3/cvc5",
  "Scalar tables only. Proved for all inputs: GetValueRep (what the JSON encoder is handed for a scalar) yields the exact int64 for `!!int` text (decimal, hex, octal; an error iff the text is not an int64), nil for `!!null`, the truthiness for `!!bool`, and the text verbatim for every other core tag; setScalarFromJson maps JSON null to a `!!null` scalar and a JSON string to a `!!str` scalar with the same text, and a JSON number to `!!int` only with the decimal text of an integer whose float64 image is that number, otherwise to `!!float` (the float32 branch would panic and is excluded by precondition: the JSON library yields float64 only). NOT decided: everything textual — string escaping, number lexing and printing, key order and object syntax of MarshalJSON/UnmarshalJSON (goccy/go-json, bytes.Buffer), floats (modelled as reals here), and integers beyond 2^53 on the way in (they pass through float64 in the library: F12, seen by reading, not decided by a check).",
  "Trusted: strconv model, guessTagFromCustomType contract for custom tags.",
  "DESIGN.md §5 C06")

not_yet = {}

def hook_commits():
    import subprocess
    out = subprocess.run(["git", "-C", "/repo", "log", "--format=%h %s"], capture_output=True, text=True).stdout
    hs = [l.split()[0] for l in out.splitlines() if l.split(" ", 1)[1].startswith("verif hook")]
    hs.reverse()
    json.dump(hs, open("hook_commits.json", "w"))
    return hs

def main():
    props = [json.loads(l) for l in open("properties.jsonl")]
    na_reasons = json.load(open("not_applicable.json"))
    checks = []
    na = []
    for p in props:
        pid = p["id"]
        if pid in claimed:
            tech, text, note, ref = claimed[pid]
            checks.append({
                "property_id": pid,
                "quick_cmd": f"{ENV} ./bin/yqv check {pid} --tier quick",
                "thorough_cmd": f"{ENV} ./bin/yqv check {pid} --tier thorough",
                "evidence_file": f"/verif/evidence/{pid}.json",
                "replay_cmd_template": "cat {path}",
                "engine": "yqv",
                "level_claimed": {"category": "proof", "text": text, "design_ref": ref},
                "level_note": note,
                "technique": tech,
            })
        else:
            na.append({"property_id": pid, "reason": na_reasons.get(pid, "check not built yet in this round; no claim is made")})
    m = {
        "version": 1,
        "setup_cmd": f"{ENV} go build -o bin/yqv ./cmd/yqv && {ENV} ./bin/yqv warm",
        "hooks": {
            "guard": "verif",
            "enable": "go build -tags verif ./... (the guard only adds comment-only contract files zz_verif_contracts.go; yqv loads /repo with -tags=verif)",
            "baseline_off_cmd": "cd /repo && GOFLAGS=-mod=mod GOPROXY=off GOSUMDB=off go test -json -vet=off -count=1 -timeout 25m ./...",
            "source_commits": hook_commits(),
            "add_only": True,
        },
        "engines": [{"name": "yqv", "path": "/verif/cmd/yqv", "serves_properties": sorted(claimed), "kind_free_text": "contract-based deductive verifier for Go: contracts in //go:build verif comment files, VCs by weakest preconditions over go/ssa, discharged by z3 4.8.12 / z3 5.1.0 / cvc5 1.0"}],
        "checks": checks,
        "not_applicable": na,
        "notes": "See DESIGN.md. Every check rebuilds its obligations from /repo's working tree (go/packages load with -tags=verif).",
    }
    json.dump(m, open("MANIFEST.json", "w"), indent=1)
    print("MANIFEST.json:", len(checks), "checks,", len(na), "not applicable")

main()
