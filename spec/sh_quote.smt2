;; C17 — quoting with '...' where every embedded ' is replaced by '"'"' (encoder_shellvariables.go quoteValue).
;; needs sh.smt2
;; sig repSeq(RSeq, Int, RSeq) RSeq
;; sig sqEsc() RSeq
;; sig r1(Int) RSeq
; strings.ReplaceAll(s, old, new) for a one-character old, on rune sequences (assumed contract of the library function)
(declare-fun repSeq (RSeq Int RSeq) RSeq)
(assert (forall ((o Int) (n RSeq)) (! (= (repSeq rnil o n) rnil) :pattern ((repSeq rnil o n)))))
(assert (forall ((s RSeq) (c Int) (o Int) (n RSeq)) (! (= (repSeq (snoc s c) o n) (ite (= c o) (rapp (repSeq s o n) n) (snoc (repSeq s o n) c))) :pattern ((repSeq (snoc s c) o n)))))
(define-fun r1 ((c Int)) RSeq (snoc rnil c))
; the replacement text '"'"'
(define-fun sqEsc () RSeq (snoc (snoc (snoc (snoc (snoc rnil 39) 34) 39) 34) 39))

;; lemma quote_open_base {C17}
; after the opening quote and the replaced empty text the shell is inside '...' with an empty value
(assert (not (let ((T (rapp (r1 39) (repSeq rnil 39 sqEsc)))) (and (= (shMode T) 1) (= (shVal T) rnil) (shOk T)))))
;; end

;; lemma quote_open_step {C17}
; induction step: if the claim holds for s it holds for snoc(s, c), for every character c
(declare-const s RSeq) (declare-const c Int)
(define-fun T0 () RSeq (rapp (r1 39) (repSeq s 39 sqEsc)))
(assert (and (= (shMode T0) 1) (= (shVal T0) s) (shOk T0)))
(define-fun T1 () RSeq (rapp (r1 39) (repSeq (snoc s c) 39 sqEsc)))
(assert (not (and (= (shMode T1) 1) (= (shVal T1) (snoc s c)) (shOk T1))))
;; end
