;; C15 — the order on scalars that sort / sort_by / min / max / < <= > >= are meant to share.
;;
;; A scalar is seen through (effective tag, text). What the text denotes is given by uninterpreted
;; functions (the assumed contracts of strconv / time tie the library calls to them):
;;   intOf   the int64 an !!int text denotes (decimal, 0x.., 0o.., underscores ignored)
;;   fltOf   the float64 a text denotes (strconv.ParseFloat), as a real
;;   timeOf  the instant a text denotes under a layout
;; cmpSpec transcribes the intended case analysis; the property's clauses are the lemmas below, and they
;; — not cmpSpec — are the oracle: where the case analysis itself is inconsistent a lemma fails.
;; sig intOf(String) Int
;; sig intOk(String) Bool
;; sig intFormat(String) String
;; sig fltOf(String) Real
;; sig fltOk(String) Bool
;; sig timeOf(String, String) Int
;; sig timeOk(String, String) Bool
;; sig truthyText(String) Bool
;; sig effTag(String, String) String
;; sig snippetTag(String) String
;; sig snippetOk(String) Bool
;; sig isNumTag(String) Bool
;; sig numOf(String, String) Real
;; sig numOk(String, String) Bool
;; sig isDT(String, String, String, String, String) Bool
;; sig cmpSpec(String, String, String, String, String) Int
;; sig parsesAs(String, String, String) Bool
;; sig rsign(Real) Int
;; sig noUnderscore(String) String
;; const RFC3339 String
;; needs lib.smt2
(define-fun RFC3339 () String "2006-01-02T15:04:05Z07:00")
(define-fun noUnderscore ((s String)) String (ite (str.contains s "_") (strReplaceAll s "_" "") s))
; the int64 denoted by an integer text, exactly as yq reads it (lib.go parseInt64)
(define-fun intOf ((s String)) Int
  (let ((t (noUnderscore s)))
    (ite (or (str.prefixof "0x" t) (str.prefixof "0X" t)) (intOfText (str.substr t 2 (- (str.len t) 2)) 16)
    (ite (str.prefixof "0o" t) (intOfText (str.substr t 2 (- (str.len t) 2)) 8)
      (intOfText t 10)))))
(define-fun intOk ((s String)) Bool
  (let ((t (noUnderscore s)))
    (ite (or (str.prefixof "0x" t) (str.prefixof "0X" t)) (intTextOk (str.substr t 2 (- (str.len t) 2)) 16 64)
    (ite (str.prefixof "0o" t) (intTextOk (str.substr t 2 (- (str.len t) 2)) 8 64)
      (intTextOk t 10 64)))))
; the Printf format yq reprints an integer with: the notation of the text it was read from
(define-fun intFormat ((s String)) String
  (let ((t (noUnderscore s)))
    (ite (or (str.prefixof "0x" t) (str.prefixof "0X" t)) "0x%X" (ite (str.prefixof "0o" t) "0o%o" "%v"))))
(define-fun fltOf ((s String)) Real (fltOfText s))
(define-fun fltOk ((s String)) Bool (fltTextOk s))
(declare-fun timeOf (String String) Int)
(declare-fun timeOk (String String) Bool)
(define-fun truthyText ((v String)) Bool (or (equalFold v "y") (equalFold v "yes") (equalFold v "on") (equalFold v "true")))
(declare-fun snippetTag (String) String)
(declare-fun snippetOk (String) Bool)
; effective tag of a node: its own tag when it is a core tag, else a guess from the text
(define-fun effTag ((tag String) (val String)) String
  (ite (or (str.prefixof "!!" tag) (= val "") (not (snippetOk val))) tag (snippetTag val)))
(define-fun isNumTag ((t String)) Bool (or (= t "!!int") (= t "!!float")))
(define-fun rsign ((x Real)) Int (ite (< x 0.0) (- 1) (ite (> x 0.0) 1 0)))
; numeric value of a number: ints through int64 -> float64 conversion (rnd), floats as parsed
(define-fun numOf ((t String) (v String)) Real (ite (and (= t "!!int") (intOk v)) (rnd (intOf v)) (fltOf v)))
(define-fun numOk ((t String) (v String)) Bool (or (and (= t "!!int") (intOk v)) (fltOk v)))
(define-fun parsesAs ((t String) (v String) (layout String)) Bool
  (and (=> (= t "!!int") (intOk v)) (=> (= t "!!float") (fltOk v)) (=> (= t "!!timestamp") (timeOk layout v))))
(define-fun isDT ((lt String) (lv String) (rt String) (rv String) (layout String)) Bool
  (ite (and (= lt "!!str") (not (= layout RFC3339))) (and (timeOk layout lv) (timeOk layout rv))
       (and (= lt "!!timestamp") (= rt "!!timestamp"))))
(define-fun cmpSpec ((lt String) (lv String) (rt String) (rv String) (layout String)) Int
  (ite (and (= lt "!!null") (not (= rt "!!null"))) (- 1)
  (ite (and (not (= lt "!!null")) (= rt "!!null")) 1
  (ite (and (= lt "!!bool") (not (= rt "!!bool"))) (- 1)
  (ite (and (not (= lt "!!bool")) (= rt "!!bool")) 1
  (ite (and (= lt "!!bool") (= rt "!!bool")) (ite (= (truthyText lv) (truthyText rv)) 0 (ite (truthyText lv) 1 (- 1)))
  (ite (isDT lt lv rt rv layout)
       (ite (and (timeOk layout lv) (timeOk layout rv)) (sign (- (timeOf layout lv) (timeOf layout rv))) (strcmp lv rv))
  (ite (and (= lt "!!int") (= rt "!!int") (intOk lv) (intOk rv)) (sign (- (intOf lv) (intOf rv)))
  (ite (and (isNumTag lt) (isNumTag rt) (numOk lt lv) (numOk rt rv)) (rsign (- (numOf lt lv) (numOf rt rv)))
       (strcmp lv rv))))))))))
; int64 -> float64 conversion: monotone, exact up to 2^53 (assumed; IEEE-754 round-to-nearest)
(assert (forall ((i Int) (j Int)) (! (=> (<= i j) (<= (rnd i) (rnd j))) :pattern ((rnd i) (rnd j)))))
(assert (forall ((i Int)) (! (=> (and (<= (- 9007199254740992) i) (<= i 9007199254740992)) (= (rnd i) (to_real i))) :pattern ((rnd i)))))

;; ---------------------------------------------------------------------------------------------------
;; Lemmas: the clauses of the property statement. Constants a b c are arbitrary scalars (tag, text).
;; Domain D: the text parses as its tag says (what every decoder produces) and the default layout.

;; lemma cmp_reflexive {C15}
(declare-const ta String) (declare-const va String) (declare-const ly String)
(assert (not (= (cmpSpec ta va ta va ly) 0)))
;; end

;; lemma cmp_antisymmetric_null_bool {C15}
(declare-const ta String) (declare-const va String) (declare-const tb String) (declare-const vb String) (declare-const ly String)
(assert (or (= ta "!!null") (= ta "!!bool") (= tb "!!null") (= tb "!!bool")))
(assert (not (= (cmpSpec ta va tb vb ly) (- (cmpSpec tb vb ta va ly)))))
;; end

;; lemma cmp_antisymmetric_numbers {C15}
(declare-const ta String) (declare-const va String) (declare-const tb String) (declare-const vb String) (declare-const ly String)
(assert (and (isNumTag ta) (isNumTag tb) (numOk ta va) (numOk tb vb)))
(assert (not (= (cmpSpec ta va tb vb ly) (- (cmpSpec tb vb ta va ly)))))
;; end

;; lemma cmp_antisymmetric_text {C15}
; every remaining pair is compared by byte order of the text (default layout; timestamps by instant)
(declare-const ta String) (declare-const va String) (declare-const tb String) (declare-const vb String)
(assert (not (or (= ta "!!null") (= ta "!!bool") (= tb "!!null") (= tb "!!bool"))))
(assert (not (and (isNumTag ta) (isNumTag tb) (numOk ta va) (numOk tb vb))))
(assert (not (= (cmpSpec ta va tb vb RFC3339) (- (cmpSpec tb vb ta va RFC3339)))))
;; end

;; lemma cmp_class_order_null_bool_rest {C15}
; null sorts before everything else, booleans before every non-null non-boolean, false before true
(declare-const ta String) (declare-const va String) (declare-const tb String) (declare-const vb String) (declare-const ly String)
(assert (not (and
  (=> (and (= ta "!!null") (not (= tb "!!null"))) (= (cmpSpec ta va tb vb ly) (- 1)))
  (=> (and (= ta "!!bool") (not (= tb "!!bool")) (not (= tb "!!null"))) (= (cmpSpec ta va tb vb ly) (- 1)))
  (=> (and (= ta "!!bool") (= tb "!!bool") (not (truthyText va)) (truthyText vb)) (= (cmpSpec ta va tb vb ly) (- 1))))))
;; end

;; lemma cmp_numbers_by_value_whatever_spelling {C15}
; two integer texts that denote the same int64 compare equal; otherwise the sign is that of the difference
(declare-const va String) (declare-const vb String) (declare-const ly String)
(assert (and (intOk va) (intOk vb)))
(assert (not (and (=> (= (intOf va) (intOf vb)) (= (cmpSpec "!!int" va "!!int" vb ly) 0))
                  (=> (< (intOf va) (intOf vb)) (= (cmpSpec "!!int" va "!!int" vb ly) (- 1)))
                  (=> (> (intOf va) (intOf vb)) (= (cmpSpec "!!int" va "!!int" vb ly) 1)))))
;; end

;; lemma cmp_strings_by_byte_order {C15}
(declare-const va String) (declare-const vb String)
(assert (not (= (cmpSpec "!!str" va "!!str" vb RFC3339) (strcmp va vb))))
;; end

;; lemma cmp_transitive_same_kind {C15}
; transitivity inside one class: null, bool, int, float, str (default layout)
(declare-const t String) (declare-const va String) (declare-const vb String) (declare-const vc String)
(assert (or (= t "!!null") (= t "!!bool") (= t "!!int") (= t "!!float") (= t "!!str")))
(assert (and (parsesAs t va RFC3339) (parsesAs t vb RFC3339) (parsesAs t vc RFC3339)))
(assert (<= (cmpSpec t va t vb RFC3339) 0))
(assert (<= (cmpSpec t vb t vc RFC3339) 0))
(assert (not (<= (cmpSpec t va t vc RFC3339) 0)))
;; end

;; lemma cmp_transitive_across_classes {C15}
; transitivity for triples drawn from null / bool / one further class X, X in {numbers within +-2^53, strings, timestamps}
(declare-const ta String) (declare-const va String) (declare-const tb String) (declare-const vb String) (declare-const tc String) (declare-const vc String)
(declare-const X String)
(assert (or (= X "!!int") (= X "!!str") (= X "!!timestamp")))
(define-fun inDom ((t String) (v String)) Bool
  (and (or (= t "!!null") (= t "!!bool") (= t X) (and (= X "!!int") (= t "!!float")))
       (parsesAs t v RFC3339)
       (=> (= t "!!int") (and (<= (- 9007199254740992) (intOf v)) (<= (intOf v) 9007199254740992)))))
(assert (and (inDom ta va) (inDom tb vb) (inDom tc vc)))
(assert (<= (cmpSpec ta va tb vb RFC3339) 0))
(assert (<= (cmpSpec tb vb tc vc RFC3339) 0))
(assert (not (<= (cmpSpec ta va tc vc RFC3339) 0)))
;; end

;; lemma cmp_transitive_int_float_beyond_2p53 {C15}
; same as above for numbers without the 2^53 restriction: expected to FAIL (known finding F11)
(declare-const ta String) (declare-const va String) (declare-const tb String) (declare-const vb String) (declare-const tc String) (declare-const vc String)
(assert (and (isNumTag ta) (isNumTag tb) (isNumTag tc) (numOk ta va) (numOk tb vb) (numOk tc vc)))
(assert (<= (cmpSpec ta va tb vb RFC3339) 0))
(assert (<= (cmpSpec tb vb tc vc RFC3339) 0))
(assert (not (<= (cmpSpec ta va tc vc RFC3339) 0)))
;; end

;; lemma cmp_transitive_numbers_and_strings {C15}
; numbers mixed with strings: expected to FAIL (known finding F19: numbers compare numerically, number/string by text)
(declare-const ta String) (declare-const va String) (declare-const tb String) (declare-const vb String) (declare-const tc String) (declare-const vc String)
(define-fun inDom ((t String) (v String)) Bool
  (and (or (= t "!!int") (= t "!!str")) (parsesAs t v RFC3339) (=> (= t "!!int") (and (<= 0 (intOf v)) (<= (intOf v) 1000)))))
(assert (and (inDom ta va) (inDom tb vb) (inDom tc vc)))
(assert (<= (cmpSpec ta va tb vb RFC3339) 0))
(assert (<= (cmpSpec tb vb tc vc RFC3339) 0))
(assert (not (<= (cmpSpec ta va tc vc RFC3339) 0)))
;; end
