;; Rune sequences. RSeq is an abstract sort built with rnil / snoc; spec functions over it are defined by
;; snoc-recursion (their unfolding axioms trigger on snoc terms only, so there is no matching loop).
;; A Go string s is viewed as prefixRunes(s, runeCount(s)): the runes `range s` yields, in order
;; (assumed: the input is valid UTF-8, as every YAML/JSON string is).
;; sig runeCount(String) Int
;; sig runeAt(String, Int) Int
;; sig runeStart(String, Int) Int
;; sig prefixRunes(String, Int) RSeq
;; sig runesOf(String) RSeq
;; sig snoc(RSeq, Int) RSeq
;; sig rlen(RSeq) Int
;; const rnil RSeq
(declare-sort RSeq 0)
(declare-const rnil RSeq)
(declare-fun snoc (RSeq Int) RSeq)
(declare-fun rlen (RSeq) Int)
(assert (= (rlen rnil) 0))
(assert (forall ((s RSeq) (c Int)) (! (= (rlen (snoc s c)) (+ (rlen s) 1)) :pattern ((snoc s c)))))
(declare-fun runeCount (String) Int)
(declare-fun runeAt (String Int) Int)
(declare-fun runeStart (String Int) Int)
(declare-fun prefixRunes (String Int) RSeq)
(define-fun runesOf ((s String)) RSeq (prefixRunes s (runeCount s)))
(assert (forall ((s String)) (! (and (>= (runeCount s) 0) (<= (runeCount s) (str.len s))) :pattern ((runeCount s)))))
(assert (forall ((s String)) (! (= (prefixRunes s 0) rnil) :pattern ((prefixRunes s 0)))))
(assert (forall ((s String) (k Int)) (! (=> (and (<= 0 k) (< k (runeCount s))) (and (<= 0 (runeAt s k)) (<= (runeAt s k) 1114111) (<= 0 (runeStart s k)) (< (runeStart s k) (str.len s)))) :pattern ((runeAt s k)))))
(assert (= (runeCount "") 0))
;; sig rapp(RSeq, RSeq) RSeq
(declare-fun rapp (RSeq RSeq) RSeq)
(assert (forall ((a RSeq)) (! (= (rapp a rnil) a) :pattern ((rapp a rnil)))))
(assert (forall ((a RSeq) (b RSeq) (c Int)) (! (= (rapp a (snoc b c)) (snoc (rapp a b) c)) :pattern ((rapp a (snoc b c))))))
