;; C12 — ghost model of the file system as far as the in-place protocol is concerned.
;; targetPath is the file being edited; ghost variables (declared in the contract file) track its state:
;;   targetState  0 = the old content, intact; 1 = the complete new content; 2 = truncated or partly written; 3 = removed
;;   targetMode / tmpMode   permission bits of the target / of the temporary file; tmpPath its name
;; fileOf maps an *os.File to the path it was opened on; infoMode the permission bits of a FileInfo.
;; sig fileOf(Int) String
;; sig infoMode(Iface) Int
;; const targetPath String
(declare-fun fileOf (Int) String)
(declare-fun infoMode (Iface) Int)
(declare-const targetPath String)
