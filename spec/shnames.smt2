;; Shell variable names (C17, -o=shell): [A-Za-z_][A-Za-z0-9_]* stated over the runes of a Go string.
;; needs runes.smt2 sh.smt2
;; sig nameTail(String) Bool
;; sig shellName(String) Bool
;; sig mapSrc(String, Int) Int
;; nameTail(s): every rune of s is a letter, a digit or the underscore; shellName(s): s is not empty, starts
;; with a letter or the underscore, and nameTail(s).
(define-fun nameTail ((s String)) Bool (forall ((k Int)) (! (=> (and (<= 0 k) (< k (runeCount s))) (isAlnumUnderscore (runeAt s k))) :pattern ((runeAt s k)))))
(define-fun shellName ((s String)) Bool (and (> (runeCount s) 0) (isAlphaUnderscore (runeAt s 0)) (nameTail s)))
;; mapSrc(m, k): the rune of the argument that the k-th rune of a strings.Map result m was made from (Skolem
;; function of the library model)
(declare-fun mapSrc (String Int) Int)
;; Runes of a concatenation (assumed: both parts are valid UTF-8, so no rune straddles the seam).
(assert (forall ((a String) (b String)) (! (= (runeCount (str.++ a b)) (+ (runeCount a) (runeCount b))) :pattern ((runeCount (str.++ a b))))))
(assert (forall ((a String) (b String) (k Int)) (! (= (runeAt (str.++ a b) k) (ite (< k (runeCount a)) (runeAt a k) (runeAt b (- k (runeCount a))))) :pattern ((runeAt (str.++ a b) k)))))
(assert (= (runeCount "_") 1))
(assert (= (runeAt "_" 0) 95))
;; a string that is not empty has a first rune
(assert (forall ((s String)) (! (=> (> (str.len s) 0) (> (runeCount s) 0)) :pattern ((runeCount s)))))
