;; The statement proved by induction in sh_quote.smt2 (lemmas quote_open_base / quote_open_step), made
;; available to function VCs as an axiom.
;; needs sh_quote.smt2
;; when repSeq
;; sig quotedOpen(RSeq) RSeq
(define-fun quotedOpen ((s RSeq)) RSeq (rapp (r1 39) (repSeq s 39 sqEsc)))
(assert (forall ((s RSeq)) (! (and (= (shMode (rapp (r1 39) (repSeq s 39 sqEsc))) 1) (= (shVal (rapp (r1 39) (repSeq s 39 sqEsc))) s) (shOk (rapp (r1 39) (repSeq s 39 sqEsc)))) :pattern ((repSeq s 39 sqEsc)))))
