;; C17 — POSIX shell tokenisation of one word, restricted to the constructs the encoders emit.
;; State after reading a sequence of characters: (mode, value, ok)
;;   mode 0 unquoted, 1 inside '...', 2 right after an unquoted backslash, 3 inside "..."
;;   value: the characters the shell hands to the program so far
;;   (NUL cannot occur in a shell word at all; strings containing it are outside the property and are not tracked)
;;   ok: nothing so far was special to the shell (operator, expansion, glob, comment, word split, continuation)
;; needs runes.smt2
;; sig shMode(RSeq) Int
;; sig shVal(RSeq) RSeq
;; sig shOk(RSeq) Bool
;; sig shellSafe(Int) Bool
;; sig posixLiteral(Int) Bool
;; sig isAlnumUnderscore(Int) Bool
;; sig isAlphaUnderscore(Int) Bool
(declare-fun shMode (RSeq) Int)
(declare-fun shVal (RSeq) RSeq)
(declare-fun shOk (RSeq) Bool)
; characters with a meaning to the shell when they appear unquoted:
; | & ; < > ( ) $ ` \ " ' space tab newline  * ? [ ] # ~ ! { } ^  and NUL
(define-fun posixLiteral ((c Int)) Bool
  (not (or (= c 124) (= c 38) (= c 59) (= c 60) (= c 62) (= c 40) (= c 41) (= c 36) (= c 96) (= c 92) (= c 34) (= c 39)
           (= c 32) (= c 9) (= c 10) (= c 42) (= c 63) (= c 91) (= c 93) (= c 35) (= c 126) (= c 33) (= c 123) (= c 125) (= c 94) (= c 0)
           (= c 13) (= c 11) (= c 12))))
; the characters yq leaves unquoted: [A-Za-z0-9_@%+=:,./-]
(define-fun shellSafe ((c Int)) Bool
  (or (and (<= 97 c) (<= c 122)) (and (<= 65 c) (<= c 90)) (and (<= 48 c) (<= c 57)) (= c 95) (= c 64) (= c 37) (= c 43) (= c 61) (= c 58) (= c 44) (= c 46) (= c 47) (= c 45)))
(define-fun isAlphaUnderscore ((c Int)) Bool (or (and (<= 97 c) (<= c 122)) (and (<= 65 c) (<= c 90)) (= c 95)))
(define-fun isAlnumUnderscore ((c Int)) Bool (or (isAlphaUnderscore c) (and (<= 48 c) (<= c 57))))
(assert (and (= (shMode rnil) 0) (= (shVal rnil) rnil) (shOk rnil)))
(assert (forall ((s RSeq) (c Int)) (! (and
  (= (shMode (snoc s c))
     (ite (= (shMode s) 0) (ite (= c 39) 1 (ite (= c 92) 2 (ite (= c 34) 3 0)))
     (ite (= (shMode s) 1) (ite (= c 39) 0 1)
     (ite (= (shMode s) 2) 0
          (ite (= c 34) 0 3)))))
  (= (shVal (snoc s c))
     (ite (= (shMode s) 0) (ite (or (= c 39) (= c 92) (= c 34)) (shVal s) (snoc (shVal s) c))
     (ite (= (shMode s) 1) (ite (= c 39) (shVal s) (snoc (shVal s) c))
     (ite (= (shMode s) 2) (snoc (shVal s) c)
          (ite (= c 34) (shVal s) (snoc (shVal s) c))))))
  (= (shOk (snoc s c))
     (and (shOk s)
     (ite (= (shMode s) 0) (or (= c 39) (= c 92) (= c 34) (posixLiteral c))
     (ite (= (shMode s) 1) true
     (ite (= (shMode s) 2) (not (= c 10))
          (not (or (= c 36) (= c 96) (= c 92)))))))))
  :pattern ((snoc s c)))))

;; lemma shellSafe_chars_are_literal {C17}
; every character yq leaves unquoted is an ordinary character to a POSIX shell
(declare-const c Int)
(assert (shellSafe c))
(assert (not (and (posixLiteral c) (not (= c 39)) (not (= c 92)) (not (= c 34)))))
;; end

;; lemma alnum_chars_are_shellSafe {C17}
(declare-const c Int)
(assert (isAlnumUnderscore c))
(assert (not (and (shellSafe c) (posixLiteral c))))
;; end
