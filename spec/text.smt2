;; Decimal text of integers. itoa is uninterpreted: linking it to str.from_int makes every solver
;; time out as soon as quantified invariants are present (measured), and no obligation needs the
;; digits. What is assumed (and listed in evidence): decimal printing is injective — stated through
;; its inverse idxOfText — and a handful of ground values.
;; sig idxOfText(String) Int
;; sig itoa(Int) String
;; sig sprintv(Iface) String
(declare-fun itoa (Int) String)
(declare-fun idxOfText (String) Int)
(assert (forall ((i Int)) (! (=> (>= i 0) (= (idxOfText (itoa i)) i)) :pattern ((itoa i)))))
(assert (forall ((s String)) (! (=> (>= (idxOfText s) 0) (= (itoa (idxOfText s)) s)) :pattern ((idxOfText s)))))
(assert (= (itoa 0) "0"))
(assert (= (itoa 1) "1"))
(assert (= (itoa 2) "2"))
