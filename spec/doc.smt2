;; Provenance of a node: the document / file index recorded at the root of the tree the node hangs from
;; (CandidateNode.GetDocument / GetFileIndex walk the Parent chain). Treated as functions of the node
;; (assumed: printing does not re-parent nodes).
;; sig rootDocument(Int) Int
;; sig rootFileIndex(Int) Int
(declare-fun rootDocument (Int) Int)
(declare-fun rootFileIndex (Int) Int)
;; sig rootFilename(Int) String
(declare-fun rootFilename (Int) String)
