;; time.Time values are opaque; only their instant matters for comparison.
;; sig instant(S.time.Time) Int
(declare-fun instant (S.time.Time) Int)
