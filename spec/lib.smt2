;; Uninterpreted denotations of library functions (assumed contracts refer to these).
;; sig strReplaceAll(String, String, String) String
;; sig intOfText(String, Int) Int
;; sig intTextOk(String, Int, Int) Bool
;; sig fltOfText(String) Real
;; sig fltTextOk(String) Bool
;; sig equalFold(String, String) Bool
;; sig strRepeat(String, Int) String
(declare-fun strReplaceAll (String String String) String)
(declare-fun intOfText (String Int) Int)
(declare-fun intTextOk (String Int Int) Bool)
(declare-fun fltOfText (String) Real)
(declare-fun fltTextOk (String) Bool)
(declare-fun equalFold (String String) Bool)
(declare-fun strRepeat (String Int) String)
; strconv.ParseInt(s, base, 64) succeeds only for texts denoting an int64 (assumed)
(assert (forall ((s String) (b Int)) (! (=> (intTextOk s b 64) (and (<= (- 9223372036854775808) (intOfText s b)) (<= (intOfText s b) 9223372036854775807))) :pattern ((intOfText s b)))))
