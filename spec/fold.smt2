;; needs lib.smt2
;; when equalFold
; strings.EqualFold: equal texts fold equal; folding never changes the length of ASCII texts (assumed for the
; ASCII literals yq compares with)
(assert (forall ((a String) (b String)) (! (=> (equalFold a b) (= (str.len a) (str.len b))) :pattern ((equalFold a b)))))
(assert (forall ((a String)) (! (equalFold a a) :pattern ((equalFold a a)))))
