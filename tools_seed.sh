#!/bin/bash
# usage: tools_seed.sh <property> <seed-name> <agent-worktree> [more property ids to check]
# Confirms a seeded change in a scratch worktree (builds, suite green, demo fails with / passes without),
# stores it under /verif/seeded/<seed-name>/ and runs the registered check(s) against it in /repo.
set -u
export GOFLAGS=-mod=mod GOPROXY=off GOSUMDB=off GOTOOLCHAIN=local
prop=$1; name=$2; wt=$3; shift 3; others="$@"
if ! git -C /repo diff --quiet || ! git -C /repo diff --cached --quiet; then echo "/repo has uncommitted changes: commit them first"; exit 2; fi
dst=/verif/seeded/$name
mkdir -p $dst
cp $wt/_seed/patch.diff $dst/patch.diff
cp $wt/_seed/demo_test.go $dst/demo_test.go 2>/dev/null
cp $wt/_seed/notes.md $dst/notes.md 2>/dev/null
# demo location
demodir=pkg/yqlib
grep -q "^package cmd" $dst/demo_test.go && demodir=cmd
scratch=/tmp/wt/verify_$name
if [ -n "${CONFIRM_ONLY:-}" ] || [ ! -f /tmp/wt/confirm_$name.env ]; then
git -C /repo worktree remove --force $scratch 2>/dev/null
git -C /repo worktree add -q --detach $scratch HEAD || exit 2
cd $scratch
res_apply=fail; res_build=fail; res_suite=fail; res_demo_with=unknown; res_demo_without=unknown
if git apply $dst/patch.diff; then res_apply=ok; fi
if go build ./... 2>/tmp/wt/build_$name.log; then res_build=ok; fi
if go test -vet=off -count=1 ./... > /tmp/wt/suite_$name.log 2>&1; then res_suite=pass; fi
cp $dst/demo_test.go $demodir/zz_seeded_demo_test.go
if go test -vet=off -count=1 -run "TestSeeded" ./$demodir > /tmp/wt/demo_with_$name.log 2>&1; then res_demo_with=pass; else res_demo_with=fail; fi
git apply -R $dst/patch.diff
if go test -vet=off -count=1 -run "TestSeeded" ./$demodir > /tmp/wt/demo_without_$name.log 2>&1; then res_demo_without=pass; else res_demo_without=fail; fi
cd /verif
git -C /repo worktree remove --force $scratch
echo "res_apply=$res_apply res_build=$res_build res_suite=$res_suite res_demo_with=$res_demo_with res_demo_without=$res_demo_without" > /tmp/wt/confirm_$name.env
else
  . /tmp/wt/confirm_$name.env
fi
echo "apply=$res_apply build=$res_build suite=$res_suite demo_with_change=$res_demo_with demo_without_change=$res_demo_without"
if [ -n "${CONFIRM_ONLY:-}" ]; then exit 0; fi
# the evidence files are records of runs on the unchanged tree: keep them out of the seeded runs
evsave=$(mktemp -d /tmp/wt/evsave_XXXX); cp -a /verif/evidence/. $evsave/
# run the checks against the change in /repo
detected=""
if [ "$res_apply" = ok ] && [ "$res_suite" = pass ] && [ "$res_demo_with" = fail ] && [ "$res_demo_without" = pass ]; then
  # the unchanged tree has no VIOLATION lines (checked by the full runs before and after a seeding round): with
  # FAST=1 the base run and the evidence-restoring run are left out (refresh the evidence afterwards)
  for p in $prop $others; do if [ -n "${FAST:-}" ]; then : > /tmp/wt/base_${name}_$p.txt; else ./bin/yqv check $p --tier quick 2>&1 | grep "^VIOLATION" | sed 's/ no-failing-input-found//' | sort > /tmp/wt/base_${name}_$p.txt; fi; done
  git -C /repo apply $dst/patch.diff
  for p in $prop $others; do
    out=$(./bin/yqv check $p --tier quick 2>&1)
    echo "$out" | grep "^VIOLATION" | sed 's/ no-failing-input-found//' | sort > /tmp/wt/seeded_${name}_$p.txt
    new=$(comm -13 /tmp/wt/base_${name}_$p.txt /tmp/wt/seeded_${name}_$p.txt)
    echo "$out" | grep -E "^C[0-9]+ quick" | cut -c1-220
    if [ -n "$new" ]; then detected="$detected $p"; echo "$new" | cut -c1-250; fi
    echo "$new" > $dst/check_$p.txt
  done
  git -C /repo checkout -- .
  # restore evidence written during the seeded run
  if [ -z "${FAST:-}" ]; then for p in $prop $others; do ./bin/yqv check $p --tier quick >/dev/null 2>&1; done; fi
fi
cp -a $evsave/. /verif/evidence/; rm -rf $evsave
python3 - <<PY
import json
json.dump({
 "property": "$prop", "seed": "$name",
 "confirmed": {"applies": "$res_apply", "builds": "$res_build", "existing_suite_with_change": "$res_suite", "demo_with_change": "$res_demo_with", "demo_without_change": "$res_demo_without"},
 "what_i_ran": ["git apply patch.diff in a scratch worktree of /repo HEAD", "go build ./...", "go test -vet=off -count=1 ./...", "go test -run TestSeeded with and without the change", "git -C /repo apply patch.diff; ./bin/yqv check <id> --tier quick; git -C /repo checkout -- ."],
 "needs_to_manifest": open("$dst/notes.md").read() if __import__("os").path.exists("$dst/notes.md") else "",
 "detected_by_checks": "$detected".split(),
}, open("$dst/meta.json","w"), indent=1)
PY
echo "detected by:$detected"
